"""Self-tests of the machinery: space sizes, writers round-trip on the unchanged tree, reference decoder vs the suite's file."""
import io
import math
import os
import sys

sys.path.insert(0, os.path.dirname(os.path.dirname(os.path.abspath(__file__))))
from mc import build as B
from mc.ref import ref_decode, ref_trace_codes
from mc.space import interleavings, compositions, deviation_bounded, seqs


def test_space_sizes():
    assert len(list(interleavings([2, 3]))) == math.comb(5, 2)
    assert len(list(interleavings([2, 2, 2]))) == 90
    assert len(list(compositions(3, 3))) == 10
    assert len(list(seqs('ab', 3))) == 1 + 2 + 4 + 8
    pts = list(deviation_bounded([[0, 1, 2], [0, 1], [0, 1, 2, 3]], 1))
    assert len(pts) == 1 + 2 + 1 + 3 and len(set(pts)) == len(pts)


def test_v2_writer_matches_suite_file():
    # the hand-built file of tests/test_pykdebugparser.py: header, no thread map, records at 0x120
    rec = bytes(range(1, 65))
    blob = B.v2([], 0, [rec])
    assert blob[:4] == b'\x00\x02\xaa\x55' and len(blob) == 0x120 + 64 and blob[0x120:] == rec
    from pykdebugparser.kd_buf_parser import KdBufParser
    out = list(KdBufParser({}, {}).parse(io.BytesIO(blob)))
    assert len(out) == 1 and (out[0].timestamp, out[0].data, out[0].tid, out[0].debugid) == (ref_decode(rec)[0], ref_decode(rec)[1], ref_decode(rec)[3], ref_decode(rec)[4])


def test_ref_trace_codes():
    assert ref_trace_codes('0x40c0548\tBSC_stat64\n40c054c BSC_x #c\n0X1 A') == {0x40c0548: 'BSC_stat64', 0x40c054c: 'BSC_x', 1: 'A'}


def test_v3_writer_round_trip():
    from pykdebugparser.kd_buf_parser import KdBufParser
    recs = [B.rec(i + 1, (i, 2, 3, 4), 9, 0x040c000d) for i in range(3)]
    blob = B.v3([(5, 6, 'abc')], [recs[:1], [], recs[1:]], [B.v3_block(B.TAG_TRACE_CODES, b'0x1 A\n')], gap=b'gapgapga')
    p = KdBufParser({}, {})
    out = list(p.parse(io.BytesIO(blob)))
    assert [(e.timestamp, e.tid) for e in out] == [(1, 9), (2, 9), (3, 9)] and p.threads_pids == {5: 6} and p.trace_codes == '0x1 A\n'
