"""Plain pytest replay of every stored counter-example (replays/*.json and seeded/*/replay*.json), without the explorer.
Run: cd /verif && PYTHONPATH=/verif:${VERIF_REPO:-/repo} /venv/bin/python -m pytest -q tests/test_replays.py
A replay file that still fails means the violation is still present in the tree under test."""
import glob
import json
import os
import subprocess
import sys

import pytest

VERIF = os.path.dirname(os.path.dirname(os.path.abspath(__file__)))
FILES = sorted(glob.glob(os.path.join(VERIF, 'replays', '*.json')))


@pytest.mark.parametrize('path', FILES or [None])
def test_replay(path):
    if path is None:
        pytest.skip('no stored counter-examples')
    rec = json.load(open(path))
    p = subprocess.run([os.path.join(VERIF, 'check'), rec['property'], '--replay', path], capture_output=True, text=True)
    assert p.returncode == 0, p.stdout[-2000:]
