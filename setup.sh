#!/bin/bash
# Offline setup: nothing to build (pure Python run by /venv/bin/python against /repo's working tree).
set -e
cd "$(dirname "$0")"
mkdir -p evidence replays
/venv/bin/python -c "import sys; sys.path.insert(0,'/verif'); import mc.run, mc.build, mc.ref" 
echo setup ok
