"""C04 — START/END pairing delivers exactly each operation's per-thread event window.

All histories of length <= d over tids x codes x the four qualifiers are fed, one event at a time, to a
fresh real TracesParser; a reference model of the statement runs in lockstep and judges every step."""
import itertools

from mc.run import Check, main, h64
from mc import ev as E
from pykdebugparser.kevent import Kevent
from pykdebugparser.traces_parser import TracesParser

TRACE_FAMILY = {'TRACE_DATA_NEWTHREAD', 'TRACE_DATA_EXEC', 'TRACE_DATA_THREAD_TERMINATE',
                'TRACE_DATA_THREAD_TERMINATE_PID', 'TRACE_STRING_GLOBAL', 'TRACE_STRING_NEWTHREAD',
                'TRACE_STRING_EXEC', 'TRACE_STRING_PROC_EXIT', 'TRACE_STRING_THREADNAME',
                'TRACE_STRING_THREADNAME_PREV'}
# codes whose NONE-qualified record is a continuation fragment of a multi-record text (C08 owns them)
FRAGMENT_CAPABLE = {'VFS_LOOKUP', 'TRACE_STRING_GLOBAL', 'TRACE_STRING_THREADNAME', 'TRACE_STRING_THREADNAME_PREV'}

DATA = b''.join(int(v).to_bytes(8, 'little') for v in (1, 2, 3, 4))
# a page fault that succeeds (END words 2,3 = result 0, fault type 2) and a nested record its decoder reads
WORDS_BY_NAME = {'MACH_vmfault': (0x1000, 1, 0, 2), 'RealFaultAddressInternal': (0x1000, (44 << 16) | (3 << 8) | 2, 5, 6)}
QN = ['NONE', 'START', 'END', 'ALL']


class Alphabet:
    def __init__(self, names, tids):
        tc = E.codes()
        self.tc = tc
        self.codes = []
        for n in names:
            if n == 'U' or n.startswith('U:'):
                code = 0xdead0000 if n == 'U' else int(n[2:], 16)
                assert code not in tc
                self.codes.append((n, code, False, 'ord', False))
            elif n.startswith('I:'):
                code = int(n[2:], 16)          # a code of the table given by its id (two ids may carry one name)
                assert code in tc and tc[code] not in TRACE_FAMILY
                self.codes.append((n, code, False, 'ord', False))
            elif n.startswith('K:'):
                code = E.n2i(n[2:])
                self.codes.append((n, code, False, 'ord', False))
            elif n.startswith('R:'):
                # a code of the table for which the fed parser is TAUGHT a decoder that raises (pairing does not depend on decoding)
                code = E.n2i(n[2:])
                self.codes.append((n, code, True, 'ord', False))
            else:
                code = E.n2i(n)
                self.codes.append((n, code, True, 'trace' if n in TRACE_FAMILY else 'ord', n in FRAGMENT_CAPABLE))
        self.syms = [(t, ci, q) for t in tids for ci in range(len(self.codes)) for q in range(4)]
        self.max_depth = 8
        # event objects per (position, symbol); a few codes carry words their decoder acts on (a successful page fault, its nested record)
        def words_of(ci):
            w = WORDS_BY_NAME.get(self.codes[ci][0], (1, 2, 3, 4))
            return b''.join(int(v).to_bytes(8, 'little') for v in w), w
        self.events = [[Kevent(pos, words_of(ci)[0], words_of(ci)[1], t, self.codes[ci][1] | q, self.codes[ci][1], q)
                        for (t, ci, q) in self.syms] for pos in range(self.max_depth)]
        # the same events stamped with DEcreasing timestamps (stream order is the order of arrival, not of the stamps)
        self.events_desc = [[e._replace(timestamp=1000 - e.timestamp) for e in row] for row in self.events]
        # the same events all stamped alike: two records of one symbol are then equal field by field (distinct objects)
        self.events_same = [[e._replace(timestamp=7) for e in row] for row in self.events]

    def describe(self, hist):
        return [f'tid{t}:{self.codes[ci][0]}:{QN[q]}' for (t, ci, q) in (self.syms[s] for s in hist)]


def canon(parser):
    """canonical content of the two window tables, or None when the implementation no longer keeps them in the shape this
    observation knows (then the 'stray END changes nothing' clause is judged on behaviour only)."""
    try:
        return _canon(parser)
    except Exception:
        return None


def _canon(parser):
    out = []
    for dom, table in (('ord', parser.on_going_events), ('trace', parser.on_going_traces)):
        for tid in sorted(table):
            for code in sorted(table[tid]):
                out.append((dom, tid, code, tuple(e.timestamp for e in table[tid][code])))
    return tuple(out)


def canon_abstract(parser):
    try:
        return _canon_abstract(parser)
    except Exception:
        return ('unobservable',)


def _canon_abstract(parser):
    out = []
    for dom, table in (('ord', parser.on_going_events), ('trace', parser.on_going_traces)):
        for tid in sorted(table):
            for code in sorted(table[tid]):
                out.append((dom, tid, code, tuple((e.debugid, e.tid) for e in table[tid][code])))
    return tuple(out)


class DecoderFailed(Exception):
    pass


def _raising_decoder(parser, events):
    raise DecoderFailed('this decoder cannot decode its window')


def check_history(alpha, hist, from_step=0, collect_state=None, prefilled=False, via_generator=False, desc_ts=False, same_ts=False):
    """Run one history on a fresh parser with the reference model in lockstep.
    Returns (violation or None, n_emitted, matched_end_seen). Steps < from_step are replayed and modelled
    but not judged (they were judged as part of an earlier history with the same prefix)."""
    p = TracesParser(alpha.tc, {1: 10, 2: 20, 3: 30}, {10: 'a', 20: 'b', 30: 'c'}) if prefilled else TracesParser(alpha.tc, {}, {})
    raising = {c[1] for c in alpha.codes if c[0].startswith('R:')}
    for c in alpha.codes:
        if c[0].startswith('R:'):
            p.handlers[c[0][2:]] = _raising_decoder
    ref = {'ord': {}, 'trace': {}}
    emitted = 0
    matched = 0
    events = alpha.events_desc if desc_ts else alpha.events_same if same_ts else alpha.events
    unstamp = (lambda ts: 1000 - ts) if desc_ts else (lambda ts: ts)
    ident = {id(events[i_][s_]): i_ for i_, s_ in enumerate(hist)} if same_ts else None
    last_start = {}
    reported = []
    gen_out = None
    if via_generator:
        # the same events through the lazy entry point that PyKdebugParser.traces uses; a trace is attributed to the step whose
        # event had just been pulled when it came out
        gen_out = {}
        cur = [0]

        def src():
            for i_, s_ in enumerate(hist):
                cur[0] = i_
                yield events[i_][s_]
        try:
            for tr in p.feed_generator(src()):
                if cur[0] in gen_out:
                    return ('two-traces-for-one-event', cur[0], ''), emitted, matched
                gen_out[cur[0]] = tr
        except Exception as ex:
            return ('raised:' + type(ex).__name__, cur[0], repr(ex)), emitted, matched
    for i, s in enumerate(hist):
        t, ci, q = alpha.syms[s]
        name, code, decodable, dom, fragcap = alpha.codes[ci]
        e = events[i][s]
        judge = i >= from_step
        stray = False
        before = canon(p) if (judge and q == 2 and not via_generator and not desc_ts and not same_ts) else None
        if via_generator:
            got = gen_out.get(i)
        else:
            decoder_raised = False
            try:
                got = p.feed(e)
            except DecoderFailed:
                # the caller survives the failure of a decoder and goes on feeding the same parser
                got, decoder_raised = None, True
            except Exception as ex:  # the pairing layer must never raise on these codes
                return ('raised:' + type(ex).__name__, i, repr(ex)), emitted, matched
        # ---- reference model step
        d = ref[dom].setdefault(t, {})
        prev_start = last_start.get((t, ci))
        exp = None
        may_swallow = False
        if q == 1:
            last_start[(t, ci)] = i
            d[code] = {'req': [], 'opt': set()}
            for w in d.values():
                w['req'].append(i)
        elif q == 2:
            if code not in d:
                for w in d.values():
                    w['opt'].add(i)
                exp = None
                stray = True
            else:
                for w in d.values():
                    w['req'].append(i)
                w = d.pop(code)
                matched += 1
                exp = w if decodable else None
        else:
            for w in d.values():
                w['req'].append(i)
            if decodable:
                exp = {'req': [i], 'opt': set()}
                may_swallow = fragcap and q == 0
        if got is not None:
            emitted += 1
            try:
                reported.append((i, got, tuple(id(x) for x in got.ktraces)))
            except Exception:
                pass
        if not via_generator and code in raising:
            # the taught decoder raises exactly when a trace of this code was due; the operation is closed all the same
            if decoder_raised != (exp is not None):
                return ('decoder-called-without-a-window-to-decode' if decoder_raised else 'missing-trace', i, 'a decoder that raises was taught for this code'), emitted, matched
            continue
        if not judge:
            continue
        # ---- oracle
        if got is None and exp is not None and not may_swallow:
            return ('missing-trace', i, 'expected a trace, none emitted'), emitted, matched
        if got is not None and exp is None:
            return ('unexpected-trace', i, f'emitted {type(got).__name__}'), emitted, matched
        if got is not None:
            kt = got.ktraces
            pos = [ident.get(id(x), -1) for x in kt] if same_ts else [unstamp(x.timestamp) for x in kt]
            if -1 in pos:
                return ('window-holds-foreign-object', i, pos), emitted, matched
            if any(kt[j] is not events[pos[j]][hist[pos[j]]] for j in range(len(kt)) if 0 <= pos[j] < len(hist)):
                return ('window-holds-foreign-object', i, pos), emitted, matched
            if pos != sorted(set(pos)):
                return ('window-order-or-duplicate', i, pos), emitted, matched
            if not pos or pos[-1] != i:
                return ('window-does-not-end-with-trigger', i, pos), emitted, matched
            req = exp['req']
            if not set(req) <= set(pos):
                return ('window-misses-event', i, {'required': req, 'got': pos}), emitted, matched
            for x in pos:
                if x in req:
                    continue
                xt, xci, xq = alpha.syms[hist[x]]
                if xt != t:
                    return ('window-holds-other-thread', i, pos), emitted, matched
                if alpha.codes[xci][3] != dom:
                    return ('window-holds-other-domain', i, pos), emitted, matched
                if x not in exp['opt']:
                    return ('window-holds-event-outside-interval', i, {'required': req, 'got': pos}), emitted, matched
            if q == 2:
                first = alpha.syms[hist[pos[0]]]
                if not (first[0] == t and first[1] == ci and first[2] == 1):
                    return ('window-does-not-start-with-own-START', i, pos), emitted, matched
                if pos[0] != prev_start:
                    return ('window-not-from-most-recent-START', i, pos), emitted, matched
            elif pos != [i]:
                return ('single-event-trace-not-alone', i, pos), emitted, matched
        if stray and before is not None:
            after = canon(p)
            if after is not None and after != before:
                # leniency: the stray END may have been appended to the windows open on its thread+domain
                ok = True
                bd = {(a, b, c): w for a, b, c, w in before}
                ad = {(a, b, c): w for a, b, c, w in after}
                if set(bd) != set(ad):
                    ok = False
                else:
                    for k in bd:
                        if ad[k] == bd[k]:
                            continue
                        if not (k[0] == dom and k[1] == t and ad[k] == bd[k] + (i,)):
                            ok = False
                if not ok:
                    return ('stray-END-changed-state', i, {'before': before, 'after': after}), emitted, matched
    # what was reported stays as it was reported: no trace's event list grows, shrinks or is overwritten by later events
    for step, tr, ids in reported:
        try:
            now = tuple(id(x) for x in tr.ktraces)
        except Exception:
            continue
        if now != ids:
            return ('reported-window-changed-later', step, {'events_when_reported': len(ids), 'events_at_the_end': len(now)}), emitted, matched
    if collect_state is not None:
        collect_state.add(h64(canon_abstract(p)))
    return None, emitted, matched


ALPHABETS = {
    'A40': (['BSC_getpid', 'BSC_getuid', 'TRACE_DATA_EXEC', 'K:MACH_vm_page_release', 'U'], (1, 2)),
    'A48': (['BSC_getpid', 'BSC_getuid', 'TRACE_DATA_EXEC', 'TRACE_STRING_PROC_EXIT', 'K:MACH_vm_page_release', 'U'], (1, 2)),
    'A16': (['BSC_getpid', 'TRACE_DATA_EXEC'], (1, 2)),
    'FRAG': (['BSC_getpid', 'VFS_LOOKUP', 'TRACE_STRING_GLOBAL', 'TRACE_DATA_EXEC', 'U'], (1, 2)),
    'T3': (['BSC_getpid', 'TRACE_DATA_EXEC', 'U'], (1, 2, 3)),
    # codes that share the kdebug class (7) / subclass (0x700) of the trace-domain codes without being trace-domain
    'C7': (['BSC_getpid', 'TRACE_DATA_EXEC', 'K:TRACE_LOST_EVENTS', 'U:0x07000020'], (1, 2)),
    # decodable records whose decoders have side effects keyed by their ARGUMENT words (the argument words are 1,2,3,4: word 0
    # names thread 1, word 1 names thread 2): thread-terminate, new-thread, terminate-pid, sampler thread data
    # two ids of the bundled table that carry ONE name (windows are kept per code, not per name)
    'TWIN': (['BSC_getpid', 'I:0x1600400', 'I:0x160041c'], (1, 2)),
    # composites whose decoders look INTO their window: a successful page fault with its nested record inside a call; a two-path call
    # with complete one-record lookups (every decoder may read its window, none may change it or feed it back)
    'VMF': (['BSC_getpid', 'MACH_vmfault', 'RealFaultAddressInternal'], (1,)),
    'REN': (['BSC_rename', 'VFS_LOOKUP', 'BSC_getpid'], (1,)),
    # the two-record declarations: a name record is a decodable record of its own, whatever its thread emitted before
    # a launch composite (a dataclass holding a list that may be empty) with and without image records; a code whose taught decoder raises
    'LAUNCH': (['DBG_DYLD_TIMING_LAUNCH_EXECUTABLE', 'DYLD_uuid_map_a', 'BSC_getpid'], (1, 2)),
    'RAISE': (['BSC_getpid', 'R:MACH_vm_page_release', 'BSC_getuid'], (1,)),
    'ZERO': (['BSC_getpid', 'U:0x0'], (1,)),
    'T63': (['BSC_getpid', 'TRACE_DATA_EXEC'], (5, 0x8000000000000005)),
    'NAME': (['TRACE_DATA_NEWTHREAD', 'TRACE_STRING_NEWTHREAD', 'TRACE_DATA_EXEC', 'TRACE_STRING_EXEC', 'BSC_getpid'], (1, 2)),
    'SIDE': (['BSC_getpid', 'TRACE_DATA_THREAD_TERMINATE', 'TRACE_DATA_NEWTHREAD', 'TRACE_DATA_THREAD_TERMINATE_PID', 'PERF_THD_Data'], (1, 2)),
}
_ALPHA = {}


def alphabet(name):
    """'X+map' = alphabet X fed to a parser whose thread map is already populated at construction."""
    base = name.split('+')[0]
    if base not in _ALPHA:
        _ALPHA[base] = Alphabet(*ALPHABETS[base])
    return _ALPHA[base]


class C04(Check):
    pid = 'C04'
    level = 'model_checking'
    design_ref = 'DESIGN.md section 4, C04'
    rule = ('every history of length <= depth over tids x codes {decodable ordinary, trace-domain, known-undecoded, '
            'unknown} x qualifiers {NONE,START,END,ALL} is fed event by event to a fresh real TracesParser with a '
            'reference model of the statement in lockstep (every maximal history is run; each shorter history is '
            'judged as a prefix exactly once). Cases are distinct by construction (each element of the product is '
            'enumerated once); non-trivial = the history contains at least one END that matches an open START of '
            'the same code on the same thread. Every history of depth 3 over a 16-symbol (quick) / 40-symbol (thorough) alphabet also goes through EVERY entry point that reaches the pairing layer (feed, feed_generator, PyKdebugParser.traces on a v2 file, on a v3 file with one chunk and with one chunk per record) and all must agree. Alphabets marked +ts carry decreasing timestamps (stream order is arrival order, not stamp order); alphabets marked +same stamp every record alike, so that two records of one kind are equal field by field (positions are then recovered by object identity); alphabets marked +gen go through feed_generator (the lazy entry point PyKdebugParser.traces uses) instead of feed(); alphabets marked +map are fed to a parser whose thread map was already populated when it was built. At the end of every history each reported trace still holds exactly the event objects it held when it was reported. states = distinct canonical window-table states (positions '
            'abstracted) reached at the end of a history; transitions = real feed() calls.')
    assumptions = (
        'codes used: BSC_getpid/BSC_getuid (ordinary), TRACE_DATA_EXEC/TRACE_STRING_PROC_EXIT (trace domain), '
        'MACH_vm_page_release (in table, no decoder), 0xdead0000 (unknown); 0x1600400 / 0x160041c (two ids, one name); fragment alphabet adds VFS_LOOKUP and '
        'TRACE_STRING_GLOBAL',
        'leniency: a stray END may or may not be recorded in the windows open on its thread; a lone NONE fragment '
        'of a multi-record text may be swallowed (C08)',
        'depth bound: mechanisms needing more events than the bound are out of reach',
    )

    def plan(self):
        if self.tier == 'quick':
            return [('A40', 4), ('FRAG', 3), ('T3', 3), ('C7', 4), ('A16+map', 4), ('T3+map', 3), ('SIDE', 3), ('A16+gen', 4), ('C7+gen', 3), ('T3+gen', 3), ('A16+ts', 4), ('FRAG+ts', 3), ('A16+same', 4), ('A16+same+gen', 4), ('FRAG+same', 3), ('TWIN', 4), ('VMF', 5), ('REN', 5), ('NAME', 3), ('LAUNCH', 3), ('LAUNCH+gen', 3), ('RAISE', 4), ('ZERO', 4), ('T63', 3)]
        return [('A40', 5), ('A16', 6), ('FRAG', 4), ('A48', 4), ('T3', 4), ('C7', 5), ('A40+map', 4), ('T3+map', 4), ('SIDE', 4), ('A40+gen', 4), ('C7+gen', 4), ('T3+gen', 4), ('A40+ts', 4), ('FRAG+ts', 4), ('A40+same', 4), ('A16+same+gen', 5), ('FRAG+same', 4), ('TWIN', 5), ('VMF', 6), ('REN', 6), ('NAME', 4), ('LAUNCH', 4), ('LAUNCH+gen', 4), ('RAISE', 5), ('ZERO', 5), ('T63', 4)]

    def bounds(self):
        return {'spaces': [{'alphabet': a, 'symbols': len(alphabet(a).syms), 'depth': d,
                            'histories': len(alphabet(a).syms) ** d} for a, d in self.plan()]}

    def shards(self):
        out = [('long', n, fill) for n in ((64, 600, 3000) if self.tier == 'quick' else (64, 600, 3000, 20000))
               for fill in ('K', 'mixed', 'nested')]
        out += [('long', n, fill) for n in (3000, 20000) for fill in ('foreign', 'foreign+gen')]
        # exact boundaries: n stand-alone records, then another call starts and ends, then the END (n = 2^k-2 .. 2^k+2)
        out += [('long', n, fill) for k in range(6, 14 if self.tier == 'quick' else 16) for n in range(2 ** k - 2, 2 ** k + 3) for fill in ('late-start', 'late-start+gen')]
        ea, ed = ('A16', 3) if self.tier == 'quick' else ('A40', 3)
        out += [('entry', ea, ed, s0) for s0 in range(len(alphabet(ea).syms))]
        # a record whose debug id is 0 (event id 0, qualifier NONE) inside windows, and thread ids with the top bit set next to their
        # low-63-bit twins: through every entry point (version-3 files included)
        for extra in ('ZERO', 'T63'):
            out += [('entry', extra, 3, s0) for s0 in range(len(alphabet(extra).syms))]
        for a, d in self.plan():
            n = len(alphabet(a).syms)
            if n ** d > 5_000_000:
                for s0 in range(n):
                    for s1 in range(n):
                        out.append((a, d, (s0, s1)))
            else:
                for s0 in range(n):
                    out.append((a, d, (s0,)))
        return out

    def run_long(self, desc, acc):
        """one long window: START, n records of the fill pattern, END - the window must hold all of them (a bounded backlog or a
        threshold-triggered trim is invisible to the depth-bounded histories)."""
        _, n, fill = desc
        alpha = alphabet('A40')
        sym = {(t, alpha.codes[ci][0], q): i for i, (t, ci, q) in enumerate(alpha.syms)}
        S, E_ = sym[(1, 'BSC_getpid', 1)], sym[(1, 'BSC_getpid', 2)]
        if fill == 'K':
            body = [sym[(1, 'K:MACH_vm_page_release', 0)]] * n
        elif fill == 'mixed':
            pat = [sym[(1, 'K:MACH_vm_page_release', 0)], sym[(1, 'BSC_getuid', 0)], sym[(2, 'BSC_getpid', 1)], sym[(1, 'TRACE_DATA_EXEC', 0)],
                   sym[(1, 'U', 3)], sym[(2, 'BSC_getpid', 2)]]
            body = [pat[i % len(pat)] for i in range(n)]
        elif fill.startswith('late-start'):
            body = [sym[(1, 'K:MACH_vm_page_release', 0)]] * n + [sym[(1, 'BSC_getuid', 1)], sym[(1, 'BSC_getuid', 0)], sym[(1, 'BSC_getuid', 2)]]
        elif fill.startswith('foreign'):
            # the window's thread is silent while another thread emits n records (complete calls and stand-alone records)
            pat = [sym[(2, 'BSC_getuid', 1)], sym[(2, 'K:MACH_vm_page_release', 0)], sym[(2, 'BSC_getuid', 2)], sym[(2, 'TRACE_DATA_EXEC', 0)]]
            body = [pat[i % len(pat)] for i in range(n - n % 4)]
        else:
            pat = [sym[(1, 'BSC_getuid', 1)], sym[(1, 'K:MACH_vm_page_release', 0)], sym[(1, 'BSC_getuid', 2)]]
            body = [pat[i % len(pat)] for i in range(n - n % 3)]
        hist = tuple([S] + body + [E_])
        saved = alpha.events
        alpha.events = []
        for pos, si in enumerate(hist):
            t, ci, q = alpha.syms[si]
            alpha.events.append({si: Kevent(pos, DATA, (1, 2, 3, 4), t, alpha.codes[ci][1] | q, alpha.codes[ci][1], q)})
        try:
            bad, emitted, matched = check_history(alpha, hist, 0, None, via_generator=fill.endswith('+gen'))
        finally:
            alpha.events = saved
        acc.case(nontrivial=True, transitions=len(hist), outcome=h64(('long', n, fill)))
        if bad:
            acc.violation('long-window:' + bad[0], {'alphabet': 'A40', 'long': [n, fill], 'history': list(hist[:3]) + ['...'] + list(hist[-2:])},
                          {'step': bad[1], 'detail': repr(bad[2])[:300]})

    def run_entry(self, desc, acc):
        """every history of the alphabet through every entry point that reaches the pairing layer: feed(), feed_generator(),
        PyKdebugParser.traces on a v2 file, on a v3 file (one chunk; one chunk per record), and the CLI's traces command (line
        count only). All must deliver the same traces (type and window positions) at the same events."""
        import io
        from mc import build as B
        from pykdebugparser.pykdebugparser import PyKdebugParser
        _, a, d, first = desc
        alpha = alphabet(a)
        n = len(alpha.syms)
        tc = dict(alpha.tc)
        for rest in itertools.product(range(n), repeat=d - 1):
            hist = (first,) + rest
            evs = [alpha.events[i][s] for i, s in enumerate(hist)]
            p = TracesParser(alpha.tc, {}, {})
            ref = []
            for e in evs:
                r = p.feed(e)
                if r is not None:
                    ref.append((type(r).__name__, tuple(x.timestamp for x in r.ktraces)))
            got = {}
            got['feed_generator'] = [(type(r).__name__, tuple(x.timestamp for x in r.ktraces)) for r in TracesParser(alpha.tc, {}, {}).feed_generator(iter(evs))]
            # ONE parser object given the stream in batches: two feed_generator() calls cut at every position (an empty batch
            # included), and feed() / feed_generator() in turns - the records it is given, in order, are the stream
            def sig(r):
                return (type(r).__name__, tuple(x.timestamp for x in r.ktraces))
            for cut in range(len(evs) + 1):
                pb = TracesParser(alpha.tc, {}, {})
                try:
                    got[f'feed_generator-in-two-batches@{cut}'] = [sig(r) for r in pb.feed_generator(iter(evs[:cut]))] + [sig(r) for r in pb.feed_generator(iter(evs[cut:]))]
                except Exception as ex:
                    got[f'feed_generator-in-two-batches@{cut}'] = 'RAISED ' + type(ex).__name__
            pb = TracesParser(alpha.tc, {}, {})
            turns = []
            try:
                for i, e in enumerate(evs):
                    if i % 2:
                        turns += [sig(r) for r in pb.feed_generator(iter([e]))]
                    else:
                        r = pb.feed(e)
                        if r is not None:
                            turns.append(sig(r))
            except Exception as ex:
                turns = 'RAISED ' + type(ex).__name__
            got['feed-and-feed_generator-in-turns'] = turns
            # positions are recovered from the record timestamps (pos + 1, so that the first byte of the file's first record is not 0)
            recs = [B.rec(e.timestamp + 1, tid=e.tid, debugid=e.debugid, data=e.data) for e in evs]
            for label, blob in (('v2', B.v2([(1, 10, 'p')], 0, recs)), ('v3', B.v3([(1, 10, 'p')], [recs])), ('v3-chunk-per-record', B.v3([(1, 10, 'p')], [[r] for r in recs]))):
                try:
                    got[label] = [(type(r).__name__, tuple(x.timestamp - 1 for x in r.ktraces)) for r in PyKdebugParser().traces(io.BytesIO(blob), tc)]
                except Exception as ex:
                    got[label] = 'RAISED ' + type(ex).__name__
            acc.case(nontrivial=bool(ref), transitions=5 * len(hist), outcome=None)
            for label, g in got.items():
                if g != ref:
                    acc.violation('entry-points-disagree:' + label.split('@')[0], {'alphabet': a + '@entry', 'history': list(hist), 'readable': alpha.describe(hist)},
                                  {'feed': repr(ref)[:300], label: repr(g)[:300]})

    def run_shard(self, desc, acc):
        if desc[0] == 'entry':
            return self.run_entry(desc, acc)
        if desc[0] == 'long':
            return self.run_long(desc, acc)
        a, d, prefix = desc
        alpha = alphabet(a)
        n = len(alpha.syms)
        prev = None
        states = set()
        rest_len = d - len(prefix)
        for rest in itertools.product(range(n), repeat=rest_len):
            hist = prefix + rest
            if prev is None:
                from_step = 0
            else:
                from_step = 0
                while hist[from_step] == prev[from_step]:
                    from_step += 1
            prev = hist
            bad, emitted, matched = check_history(alpha, hist, from_step, states, prefilled='+map' in a, via_generator='+gen' in a, desc_ts='+ts' in a, same_ts='+same' in a)
            acc.case(nontrivial=matched > 0, transitions=d, outcome=None)
            if emitted:
                acc.count('histories_emitting_traces')
            if bad:
                sig, step, detail = bad
                acc.violation(sig, {'alphabet': a, 'history': list(hist), 'readable': alpha.describe(hist)},
                              {'step': step, 'detail': detail})
            elif acc.want_sample() and matched and hist[-1] % 4 == 2:
                acc.sample({'alphabet': a, 'history': alpha.describe(hist)})
        acc.states |= states
        acc.outcomes.add(h64((a, d)))

    def replay(self, case):
        if case.get('alphabet', '').endswith('@entry'):
            from mc.run import Acc
            acc = Acc()
            a = case['alphabet'].split('@')[0]
            self.run_entry(('entry', a, len(case['history']), case['history'][0]), acc)
            return [(sig, v['cases'][0][1]) for sig, v in acc.violations.items()]
        if 'long' in case:
            from mc.run import Acc
            acc = Acc()
            self.run_long(('long', case['long'][0], case['long'][1]), acc)
            return [(sig, v['cases'][0][1]) for sig, v in acc.violations.items()]
        alpha = alphabet(case['alphabet'])
        bad, _, _ = check_history(alpha, tuple(case['history']), 0, None, prefilled='+map' in case['alphabet'], via_generator='+gen' in case['alphabet'], desc_ts='+ts' in case['alphabet'], same_ts='+same' in case['alphabet'])
        return [(bad[0], {'step': bad[1], 'detail': bad[2]})] if bad else []


if __name__ == '__main__':
    main(C04)
