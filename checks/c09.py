"""C09 — syscall arguments are rendered from the matching START argument, in order.

For every decoder rendered as name(p0, p1, ...): the complete product of per-position START word domains (numeric
corner values; every member for enum-valued words) x END tuples x lookups; a numeric token at position k must render
START word k in every run."""
import itertools

from mc.run import Check, main, h64
from mc import ev as E
from mc import domains as D
from mc import build as B
from mc.callstyle import split_call, renderings, numeric_token
from mc.space import chunked, deviation_bounded
from pykdebugparser.traces_parser import TracesParser

M64 = (1 << 64) - 1
ENDS = [(0, 0x55, 0x66, 0x77), (2, 0, 0, 0), (0, 0xaaaa, 0xbbbb, 0xcccc)]


def numeric_domain(k, tier):
    if tier == 'quick':
        return [0x1111 * (k + 1), 0, 1, 1 << 31, (1 << 32) - 1, M64]
    return [0x1111 * (k + 1), 0, 1, 0x7f, 1 << 31, (1 << 32) - 1, 1 << 63, M64]


def call_decoders():
    return [n for n in D.decoder_names() if n.startswith('BSC_') or n.startswith('MSC_')]


def new_call_decoders():
    """BSD / Mach decoders the tree under test registers that did not exist at the pinned commit (no frozen domain table): they are
    fed plain numeric words; one that raises on them is counted as not judged, one that renders is held to the same positional rule."""
    try:
        from pykdebugparser.trace_handlers import bsd, mach
        live = set(bsd.handlers) | set(mach.handlers)
    except Exception:
        return []
    known = set(E.codes().values())
    frozen = set(D.decoder_names())
    return sorted(n for n in live if (n.startswith('BSC_') or n.startswith('MSC_')) and n in known and n not in frozen)


def word_domains(name, tier):
    en = D.enums(name, 'se')
    doms = []
    for k in range(4):
        spec = en.get(f's{k}')
        if spec is not None:
            base = 0x1111 * (k + 1)
            doms.append([D.SETTERS[spec['extract']](base, v) for v in spec['values']])
        elif name == 'BSC_ioctl' and k == 1:
            doms.append(list(D.IOCTL_REQUESTS))
        else:
            doms.append(numeric_domain(k, tier))
    return doms


def lookups(n, tid=1):
    out = []
    for i in range(n):
        out += [E.ev('VFS_LOOKUP', q, tid=tid, data=d) for d, q in B.lookup_chunks(0x90 + i, f'/dir{i}/f')]
    return out


OTHER = (0x9a9a, 0x9b9b, 0x9c9c, 0x9d9d)   # words of "another event": never equal to an enumerated START word


def prefix_events(name, s, kind):
    """events that precede the judged START/END pair: an earlier START of the same call on the same thread whose END was lost,
    a stray END, the same call on another thread still open, an unrelated open call on the same thread."""
    o, _ = D.in_domain(name, 'se', OTHER, (0, 0, 0, 0), 1)
    if name in ('BSC_getsockopt', 'BSC_setsockopt'):
        o = (o[0], 6, o[2], o[3])
    if kind == 'stale-start':
        return [E.ev(name, 1, o)]
    if kind == 'stray-end':
        return [E.ev(name, 2, o)]
    if kind == 'two-stray-ends':
        # two ENDs of this call whose STARTs fell before the capture, with another record of the thread between them
        return [E.ev(name, 2, o), E.ev('MACH_WAIT', 0, OTHER), E.ev(name, 2, (0, 0x9e9e, 0x9f9f, 0x9a9a))]
    if kind in ('other-thread-open', 'other-thread-crossing'):
        return [E.ev(name, 1, o, tid=2)]
    if kind == 'other-call-open':
        return [E.ev('BSC_getpid', 1, o)]
    if kind == 'option-named-at-SOL_SOCKET-before':
        # a completed call of the same decoder that showed the SAME option word by its SO_* name (level = the host's SOL_SOCKET)
        import socket
        return [E.ev(name, 1, (o[0], socket.SOL_SOCKET, s[2], o[3])), E.ev(name, 2, (0, 0x9e9e, 0x9f9f, 0x9a9a))]
    return []


_RELATED = {}


def related_codes(name):
    """ids of table names that start with the call's name (its _extended_info / _nocancel-less relatives) and have no decoder."""
    if name not in _RELATED:
        from pykdebugparser.traces_parser import TracesParser
        handlers = TracesParser(E.codes(), {}, {}).handlers
        base = name[:-len('_nocancel')] if name.endswith('_nocancel') else name
        _RELATED[name] = sorted(c for c, nm in E.codes().items() if nm.startswith(base) and nm != name and nm not in handlers)[:4]
    return _RELATED[name]


def render(name, s, e, nlook, prefix=None):
    p = E.new_traces_parser(prefilled=prefix in ('other-thread-open', 'other-thread-crossing', 'thread-known-to-the-map'))
    _, e2 = D.in_domain(name, 'se', s, e, 1)
    # keep the START words exactly as enumerated; only END enum positions are forced in-domain
    pre = prefix_events(name, s, prefix)
    between = []
    if prefix == 'other-call-opened-inside':
        between = [E.ev('BSC_getuid', 1, OTHER), E.ev('MACH_WAIT', 0, OTHER)]
    if prefix == 'two-lost-ends-before':
        pre = [E.ev('BSC_getuid', 1, OTHER), E.ev(name, 1, prefix_events(name, s, 'stale-start')[0].values)]
    if prefix == 'same-thread-crossing':
        # overlapping, not nested, on ONE thread: other.START mine.START other.END mine.END
        oth = 'BSC_getppid' if name != 'BSC_getppid' else 'BSC_getpid'
        pre = [E.ev(oth, 1, OTHER)]
        between = [E.ev(oth, 2, (0, 0x9e9e, 0x9f9f, 0x9a9a))]
    if prefix == 'related-records-inside':
        # records of the call's own family that the tool does not decode (e.g. <call>_extended_info), with words of their own, in the window
        between = [E.ev(c, 0, OTHER) for c in related_codes(name)]
    if prefix == 'long-window':
        # 5000 stand-alone records of the same thread (with words that are nobody's argument) between START and END
        between = [E.ev('MACH_vm_page_release' if i % 2 else 'MACH_WAIT', 0, OTHER) for i in range(5000)]
    evs = pre + [E.ev(name, 1, s)] + between + lookups(nlook) + [E.ev(name, 2, e2)]
    if prefix == 'other-thread-crossing':
        # the other thread STARTs after ours and ENDs after ours: A.START B.START A.END B.END
        o, _ = D.in_domain(name, 'se', OTHER, (0, 0, 0, 0), 1)
        if name in ('BSC_getsockopt', 'BSC_setsockopt'):
            o = (o[0], 6, o[2], o[3])
        evs = [E.ev(name, 1, s), E.ev(name, 1, o, tid=2)] + lookups(nlook) + [E.ev(name, 2, e2), E.ev(name, 2, (0, 0x9e9e, 0, 0), tid=2)]
        pre = []
        judged_end = len(evs) - 2
    else:
        judged_end = len(evs) - 1
    stamped = E.restamp(evs)
    if prefix == 'same-tick':
        # every record of the window, its lookups included, carries the same timestamp
        out = [t for t in p.feed_generator([e._replace(timestamp=500) for e in stamped])]
        mine = [t for t in out if type(t).__name__ != 'VfsLookup']
        if len(mine) != 1:
            return None, f'{len(mine)} traces for one START/END pair'
        return E.stable_str(mine[0]), None
    if prefix == 'odd-timestamps':
        # stream order is what it is, but the timestamps are not increasing: nested records carry ticks below the START's,
        # the END carries the START's tick
        n = len(stamped)
        stamped = [stamped[0]._replace(timestamp=1000)] + [e._replace(timestamp=10 + i) for i, e in enumerate(stamped[1:-1])] + \
                  [stamped[-1]._replace(timestamp=1000)]
        out = [t for t in p.feed_generator(stamped)]
        mine = [t for t in out if type(t).__name__ != 'VfsLookup']
        if len(mine) != 1:
            return None, f'{len(mine)} traces for one START/END pair'
        return E.stable_str(mine[0]), None
    out = [t for t in p.feed_generator(stamped)]
    mine = [t for t in out if t.ktraces[0].eventid == evs[len(pre)].eventid and t.ktraces[-1].timestamp == judged_end]
    if len(mine) != 1:
        return None, f'{len(mine)} traces for one START/END pair'
    # records of this call that do not complete a START/END pair (a stray END, a START whose END was lost) are nobody's call
    same = [t for t in out if t.ktraces[0].eventid == evs[len(pre)].eventid]
    completed = 2 if prefix in ('other-thread-crossing', 'option-named-at-SOL_SOCKET-before') else 1
    if len(same) != completed:
        return None, f'{len(same)} traces of this call where {completed} START/END pair(s) completed'
    closed = [t for t in out if t.ktraces[-1].eventid == evs[len(pre)].eventid and t.ktraces[-1].func_qualifier == 2]
    if len(closed) != completed:
        return None, f'{len(closed)} traces end with an END record of this call where {completed} START/END pair(s) completed'
    return E.stable_str(mine[0]), None


def judge(name, s, nlook, prefix=None):
    """returns (bad or None, call text or None)"""
    calls = []
    for e in (ENDS if prefix is None else ENDS[:1]):
        try:
            txt, err = render(name, s, e, nlook, prefix)
        except Exception as ex:
            return ('render-raised:' + type(ex).__name__, {'error': repr(ex)[:200]}), None
        if err:
            return ('trace-count', {'what': err}), None
        sc = split_call(txt)
        if sc is None:
            return None, None   # not call-style: not judged here
        fn, toks, rest = sc
        for j, t in enumerate(toks):
            lit = numeric_token(t)
            if lit is None:
                continue
            if j >= 4:
                return ('numeric-parameter-beyond-fourth-argument', {'text': txt, 'position': j}), None
            if lit not in renderings(s[j]):
                return ('parameter-not-from-its-START-word', {'text': txt, 'position': j, 'token': t,
                                                              'start_words': [hex(x) for x in s]}), None
        if name in ('BSC_getsockopt', 'BSC_setsockopt') and len(toks) > 2:
            # the one symbolic rule kept here: the NAME SOL_SOCKET stands for the level word 0xffff (Darwin) / 1 (this host's table,
            # K2) only, and an SO_* name at the option position is the name of that START word
            if toks[1].strip() == 'SOL_SOCKET' and s[1] not in (1, 0xffff):
                return ('level-name-not-from-its-START-word', {'text': txt, 'level_word': hex(s[1])}), None
            so_names = D.frozen_enum('bsd.SocketOptionName')
            if toks[2].strip() in so_names and so_names[toks[2].strip()] != s[2]:
                return ('option-name-not-from-its-START-word', {'text': txt, 'option_word': hex(s[2])}), None
        calls.append((fn, tuple(toks)))
    if any(c != calls[0] for c in calls):
        return ('call-part-depends-on-END-record', {'calls': [repr(c) for c in calls]}), None
    return None, calls[0]


class C09(Check):
    pid = 'C09'
    level = 'exploration'
    rule = ('for each BSD syscall / Mach trap decoder rendered as name(p0,...): complete product of START word domains - numeric '
            'positions over 5 (quick) / 8 (thorough) corner values {0x1111(k+1), 0, 1, 0x7f, 2^31, 2^32-1, 2^63, 2^64-1}, '
            'enum-valued positions (frozen table) over every member, ioctl request over Darwin _IOC words - x 3 END tuples '
            '(success, failure, other values) with 0 lookups, every point with <=2 non-default words with 2 nested lookups, and every '
            'point with <=1 non-default word preceded by {an earlier START of the same call whose END was lost, a stray END, two stray ENDs with another record between them, the same '
            'call still open on another thread (parser built with a populated thread map; also crossing: A.START B.START A.END B.END), another call still open on the same thread, another call opened inside the window and still open at its END, two calls whose ENDs were lost, another call of the same thread that started before and ends inside the window (overlapping, not nested), the thread known to the thread map the parser was built with, (socket options: every declared SO_* option word at the levels {0, 6, 41, 0xfffe} after a completed call that showed the same word by name at SOL_SOCKET), undecoded records of the call s own family (names that begin with the call s name, e.g. _extended_info) inside the window} carrying words that never equal an '
            'enumerated one; windows whose nested lookups carry timestamps below the START tick and whose END carries the START tick; two consecutive calls per decoder read from v2 / v3 dump files whose records all carry the same timestamp; and one window per decoder with 5000 stand-alone same-thread records between START and END. '
            'Oracle: every integer-literal token at position k is one of the renderings {u64, i64, u32, i32 decimal; u64, u32 hex} of '
            'START word k in every run; no numeric token beyond position 3; call part identical across END tuples; for the socket-option calls the level name SOL_SOCKET is shown only for the level words 0xffff / 1 and an SO_* name only for its own option word. BSD / Mach decoders the tree registers beyond those of the pinned commit are fed the numeric product and held to the same rule where they render. Distinct by '
            'construction; non-trivial = the rendering is call-style and shows at least one numeric token.')
    assumptions = ('symbolic tokens (enum names, flag lists, quoted paths) are not judged here (C11/C08 own them)',
                   'renderings set: decimal unsigned/signed 64 and 32 bit, hex 64 and low 32 bit')

    def bounds(self):
        return {'decoders': len(call_decoders()), 'numeric_values_per_position': 5 if self.tier == 'quick' else 8}

    def shards(self):
        return [('dec', ch) for ch in chunked(call_decoders(), 128)] + [('files', ch) for ch in chunked(call_decoders(), 8)] + \
            [('new', ch) for ch in chunked(new_call_decoders(), 4)]

    def run_files(self, names, acc):
        """the same calls read from dump FILES (v2 and v3, one and two chunks) in which all records carry the SAME timestamp and
        the second call's START bytes sort before the first call's END bytes: renderings equal those of the direct feed."""
        import io
        from pykdebugparser.pykdebugparser import PyKdebugParser
        tc = dict(E.codes())
        for name in names:
            s1, e1 = D.in_domain(name, 'se', (0x7111, 0x7222, 0x7333, 0x7444), (0xffff, 0x55, 0x66, 0x77), 1)
            s2, e2 = D.in_domain(name, 'se', (0x0011, 0x0022, 0x0033, 0x0044), (0, 0x15, 0x16, 0x17), 2)
            if name in ('BSC_getsockopt', 'BSC_setsockopt'):
                s1, s2 = (s1[0], 6, s1[2], s1[3]), (s2[0], 6, s2[2], s2[3])
            evs = [E.ev(name, 1, s1), E.ev(name, 2, e1), E.ev(name, 1, s2), E.ev(name, 2, e2)]
            try:
                exp = [E.stable_str(t) for t in E.new_traces_parser().feed_generator(E.restamp(evs))]
            except Exception as ex:
                exp = ['RAISED ' + type(ex).__name__]
            recs = [B.rec(5, tid=1, debugid=x.debugid, data=x.data) for x in evs]
            for label, blob in (('v2', B.v2([(1, 10, 'p')], 0, recs)), ('v3', B.v3([(1, 10, 'p')], [recs])), ('v3-2chunks', B.v3([(1, 10, 'p')], [recs[:2], recs[2:]]))):
                try:
                    got = [str(t) for t in PyKdebugParser().traces(io.BytesIO(blob), tc)]
                except Exception as ex:
                    got = ['RAISED ' + type(ex).__name__]
                acc.case(nontrivial=True, transitions=4, outcome=None)
                if got != exp:
                    acc.violation(f'rendering-from-file-differs-from-direct-feed:{label}@{name}', {'decoder': name, 'start': [hex(x) for x in s1], 'lookups': 0, 'prefix': 'files'},
                                  {'from_file': got, 'direct': exp})
            # ONE facade object (and one caller-owned table) that has first listed a version-3 dump whose EMBEDDED code table gives this
            # call's id another decodable name: the next listing is decoded with the table the caller supplied, which is unchanged
            other = 'BSC_getpid' if name != 'BSC_getpid' else 'BSC_getuid'
            embedded = B.v3_block(B.TAG_TRACE_CODES, f'{E.n2i(name):#x} {other}\n'.encode())
            first = B.v3([(1, 10, 'p')], [recs[:2]], [embedded])
            f = PyKdebugParser()
            tc2 = dict(tc)
            try:
                list(f.traces(io.BytesIO(first), tc2))
                got = [str(t) for t in f.traces(io.BytesIO(B.v2([(1, 10, 'p')], 0, recs)), tc2)]
            except Exception as ex:
                got = ['RAISED ' + type(ex).__name__]
            acc.case(nontrivial=True, transitions=6, outcome=None)
            if got != exp or tc2 != tc:
                acc.violation(f'rendering-from-file-differs-from-direct-feed:after-a-dump-with-another-embedded-table@{name}',
                              {'decoder': name, 'start': [hex(x) for x in s1], 'lookups': 0, 'prefix': 'files'}, {'from_file': got, 'direct': exp, 'callers_table_changed': tc2 != tc})

    def run_shard(self, desc, acc):
        if desc[0] == 'files':
            return self.run_files(desc[1], acc)
        if desc[0] == 'new':
            for name in desc[1]:
                doms = [numeric_domain(k, self.tier) for k in range(4)]
                for s_ in itertools.product(*doms):
                    for nl in (0, 2):
                        bad, call = judge(name, s_, nl)
                        if bad and bad[0].startswith(('render-raised', 'trace-count')):
                            acc.count('runs_of_decoders_added_after_the_pinned_commit_not_judged')
                            acc.case(nontrivial=False, transitions=2)
                            continue
                        self._acc(acc, name, s_, nl, (bad[0] + ':decoder-added-after-the-pinned-commit', bad[1]) if bad else None, call)
            return
        for name in desc[1]:
            doms = word_domains(name, self.tier)
            style = None
            points = itertools.product(*doms)
            if name in ('BSC_getsockopt', 'BSC_setsockopt'):
                # conditional domain: when the level word is SOL_SOCKET (Darwin 0xffff; the host's value is 1 on Linux)
                # the option word must be a declared SO_* option
                so = sorted(D.frozen_enum('bsd.SocketOptionName').values())
                base = [p for p in itertools.product(*doms) if p[1] not in (1, 0xffff)]
                cond = [(a, lvl, o, d) for a in doms[0] for lvl in (1, 0xffff) for o in so for d in doms[3][:2]]
                points = base + cond
            for s in points:
                bad, call = judge(name, s, 0)
                self._acc(acc, name, s, 0, bad, call)
            if name in ('BSC_getsockopt', 'BSC_setsockopt'):
                # history: every declared SO_* option word at another level, after a call that showed that word by name
                for o in so:
                    for lvl in (0, 6, 41, 0xfffe):
                        s = (doms[0][0], lvl, o, doms[3][0])
                        bad, call = judge(name, s, 0, 'option-named-at-SOL_SOCKET-before')
                        self._acc(acc, name, s, 0, (bad[0] + ':after-option-named-at-SOL_SOCKET-before', bad[1]) if bad else None, call, 'option-named-at-SOL_SOCKET-before')
            for s in deviation_bounded(doms, 2):
                if name in ('BSC_getsockopt', 'BSC_setsockopt') and s[1] in (1, 0xffff):
                    continue
                bad, call = judge(name, s, 2)
                self._acc(acc, name, s, 2, bad, call)
            # the call part is a function of the START words and the nested lookups - not of the ticks the records carry
            s0 = tuple(d[0] for d in doms)
            if not (name in ('BSC_getsockopt', 'BSC_setsockopt') and s0[1] in (1, 0xffff)):
                b1, c1 = judge(name, s0, 2)
                b2, c2 = judge(name, s0, 2, 'same-tick')
                acc.case(nontrivial=True, transitions=12, outcome=None)
                if not b1 and not b2 and c1 is not None and c2 is not None and c1 != c2:
                    acc.violation(f'call-part-depends-on-timestamps@{name}', {'decoder': name, 'start': [hex(x) for x in s0], 'lookups': 2, 'prefix': 'same-tick'},
                                  {'all_records_on_one_tick': repr(c2)[:200], 'increasing_ticks': repr(c1)[:200]})
                elif b2:
                    acc.violation(f'{b2[0]}:after-same-tick@{name}', {'decoder': name, 'start': [hex(x) for x in s0], 'lookups': 2, 'prefix': 'same-tick'}, b2[1])
            # histories: something precedes the judged pair (words of the preceding events never equal an enumerated word)
            for s in deviation_bounded(doms, 1):
                if name in ('BSC_getsockopt', 'BSC_setsockopt') and s[1] in (1, 0xffff):
                    continue
                for prefix in ('stale-start', 'stray-end', 'two-stray-ends', 'other-thread-open', 'other-thread-crossing', 'other-call-open', 'other-call-opened-inside', 'two-lost-ends-before', 'odd-timestamps', 'same-thread-crossing', 'thread-known-to-the-map') + (('related-records-inside',) if related_codes(name) else ()) + (('long-window',) if s == tuple(d[0] for d in doms) else ()):
                    nl = 2 if prefix == 'odd-timestamps' else 0
                    bad, call = judge(name, s, nl, prefix)
                    self._acc(acc, name, s, nl, (bad[0] + ':after-' + prefix, bad[1]) if bad else None, call, prefix)

    def _acc(self, acc, name, s, nlook, bad, call, prefix=None):
        nontrivial = call is not None and any(numeric_token(t) for t in call[1])
        acc.case(nontrivial=nontrivial, transitions=3 * (2 + 2 * nlook), outcome=h64((name, call)) if call else h64(name))
        if call is None and bad is None:
            acc.count('not_call_style_runs')
        if bad:
            acc.violation(f'{bad[0]}@{name}', {'decoder': name, 'start': [hex(x) for x in s], 'lookups': nlook, 'prefix': prefix}, bad[1])
        elif nontrivial and acc.want_sample():
            acc.sample({'decoder': name, 'start': [hex(x) for x in s], 'call': f"{call[0]}({', '.join(call[1])})"})

    def replay(self, case):
        s = tuple(int(x, 16) for x in case['start'])
        pre = case.get('prefix')
        if pre == 'files':
            from mc.run import Acc
            acc = Acc()
            self.run_files([case['decoder']], acc)
            return [(sig, v['cases'][0][1]) for sig, v in acc.violations.items()]
        if pre == 'same-tick':
            b1, c1 = judge(case['decoder'], s, 2)
            b2, c2 = judge(case['decoder'], s, 2, 'same-tick')
            if b2:
                return [(f"{b2[0]}:after-same-tick@{case['decoder']}", b2[1])]
            if not b1 and c1 is not None and c2 is not None and c1 != c2:
                return [(f"call-part-depends-on-timestamps@{case['decoder']}", {'all_records_on_one_tick': repr(c2)[:200], 'increasing_ticks': repr(c1)[:200]})]
            return []
        bad, _ = judge(case['decoder'], s, case['lookups'], pre)
        return [(f"{bad[0]}{':after-' + pre if pre else ''}@{case['decoder']}", bad[1])] if bad else []


if __name__ == '__main__':
    main(C09)
