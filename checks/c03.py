"""C03 — a version-3 dump yields all chunked events, then logs, plus metadata sections.

Dumps come from the independent v3 writer (mc/build.py): cpu-info length residues x stackshot fillers x thread maps x all
compositions of m records into k chunks x both chunk-size conventions x metadata/log block sequences."""
import io
import itertools
import plistlib

from mc.run import Check, main, h64
from mc import build as B
from mc.ref import ref_decode, thread_tables
from mc.space import seqs, compositions, chunked, deviation_bounded
from pykdebugparser.kd_buf_parser import KdBufParser
from pykdebugparser.os_log_event import OsLogEvent

RECS = [B.rec(1, (0, 2, 3, 4), 9, 0x040c000d), bytes(64), B.rec(3, (2, 2, 3, 4), 9, 0x040c000d), b'\xff' * 64, bytes(64)]      # an all-zero record is a record (timestamp 0, thread 0, code 0)
TAGGED = [B.TAG_MORE_EVENTS + bytes(range(8, 64)), B.TAG_EVENTS + bytes(range(8, 64)), B.TAG_TRACE_CODES + bytes(range(8, 64)),
          B.V3_MAGIC + bytes(range(4, 64))]    # records whose first bytes look like container tags
SS, TM, ET, ME = B.STACKSHOT_END, B.TAG_THREADMAP, B.TAG_EVENTS, B.TAG_MORE_EVENTS
FILL1 = [b'xx', b'', b'x', SS[:5], SS[:15] + SS[:15], TM, b'\0' * 9, b's', ET, ME]
FILL2 = [b'', TM[:3], ET, b'\0' * 3, SS, b'\x00\x1d', b'\x00' + TM[:1]]
THREADMAPS = [[(5, 6, 'abc'), (7, 8, 'd')], [], [(5, 6, 'abc')], [(5, 6, 'abc'), (5, 9, 'x'), (1, 6, 'zz')],
              [(5, 6, b'sh\0iaserverd'), (7, 8, b'ab\0\xff\xfe'), (9, 2 ** 32 - 1, 'n' * 20)]]   # stale bytes after the NUL; extreme pid; a name that fills its field
GAPS = [b'', b'\0' * 8, b'gapgapga', ME]

STRINGS = {'hello %d': 1, 'procname': 0, 'sender': 3, 'other': 4}   # the process name sits at string number 0


def log_event(i, with_proc, with_tid):
    e = {'cm': 1, 't': 'logEvent', 's': 10 + i, 'tid': (100 + i) if with_tid else 0, 'ns': 5, 'mct': 6 + i, 'b': b'B' * 16,
         'piu': b'P' * 16, 'ud': {'sec': 1600000000 + i, 'usec': 250000}, 'utz': {'mw': 0, 'dt': 0}}
    if with_proc:
        e['p'] = 0
        e['pid'] = 40 + i
        if i == 2 and with_tid:
            # a (thread, process id) pair the thread map already holds, under ANOTHER name: the record's name is the one the tables end with
            e['tid'], e['pid'] = 5, 6
    # a trace identifier of the log namespace whose general flags have exactly one of unique-pid (0x10) / large-offset (0x20) set
    e['ti'] = 4 | (((0x10 if i % 3 == 0 else 0x20 if i % 3 == 1 else 0x31)) << 16) | (2 << 24) | ((7 + i) << 32)
    if i % 2 == 0:
        # a decomposed message: a literal, a SCALAR argument whose value (3, also a number of the string index) is not a string, a string
        # argument that is one
        e['dm'] = {'pc': 2, 's': 0, 'seg': [{'lp': 1, 'p': {'w': 0, 'p': 0}, 'a': {'c': 1, 'or': 3 + i}},
                                            {'p': {'w': 0, 'p': 0, 'rs': 4}, 'a': {'c': 2, 'or': 3}}]}
    return e


# metadata block kinds: name -> (tag, payload builder for occurrence number k)
def blk(kind, k, pad=True):
    if kind == 'dyld':
        return B.v3_block(B.TAG_DYLD_MODULES, B.bplist({'Binaries': [{'n': f'dy{k}'}], 'Extra': k}), pad)
    if kind == 'codes':
        return B.v3_block(B.TAG_TRACE_CODES, f'0x{k + 1:x} CODE{k}\n'.encode() + (b'' if k % 2 else b'# c\n'), pad)
    if kind == 'procs':
        return B.v3_block(B.TAG_PROCESSES, B.bplist({'Processes': [k]}), pad)
    if kind == 'kexts':
        return B.v3_block(B.TAG_KEXTS, B.bplist({'Binaries': [{'k': f'kx{k}'}, {'k': f'ky{k}'}], 'Extra': k}), pad)
    if kind == 'images':
        return B.v3_block(B.TAG_IMAGES, B.bplist({'Images': [f'im{k}']}), pad)
    if kind == 'logs':
        return B.v3_block(B.TAG_LOG_EVENTS, B.bplist({'Events': [log_event(2 * k, True, True), log_event(2 * k + 1, k % 2 == 0, False)]}), pad)
    if kind == 'strings':
        return B.v3_block(B.TAG_LOG_STRINGS, B.bplist({'StringIndex': STRINGS}), pad)
    if kind == 'unknown':
        if k % 3 == 1:
            # a block of a kind the tool does not know whose tag shares its FIRST word with the processes tag (a tag is all 8 bytes)
            return B.v3_block(B.TAG_PROCESSES[:4] + bytes([7, 0, 0, 0]), B.bplist({'Processes': ['FOREIGN']}), pad)
        if k % 3 == 2:
            return B.v3_block(B.TAG_IMAGES[:4] + bytes([9, 0, 0, 0]), B.bplist({'Images': ['FOREIGN']}), pad)
        return B.v3_block(bytes([0x77, 0x80, 0, 0, 0, 0, 0, 0]), b'whatever' * (k + 1) + b'!', pad)
    raise KeyError(kind)


KINDS = ['dyld', 'codes', 'procs', 'kexts', 'images', 'logs', 'unknown']


def expected_meta(kseq):
    exp = {'codes': '', 'kexts': [], 'dyld': [], 'procs': [], 'images': [], 'logs': []}
    count = {}
    for kind in kseq:
        k = count.get(kind, 0)
        count[kind] = k + 1
        if kind == 'codes':
            exp['codes'] += f'0x{k + 1:x} CODE{k}\n' + ('' if k % 2 else '# c\n')
        elif kind == 'kexts':
            exp['kexts'] += [{'k': f'kx{k}'}, {'k': f'ky{k}'}]
        elif kind == 'dyld':
            exp['dyld'] += [{'n': f'dy{k}'}]
        elif kind == 'procs':
            exp['procs'].append({'Processes': [k]})
        elif kind == 'images':
            exp['images'].append({'Images': [f'im{k}']})
        elif kind == 'logs':
            exp['logs'] += [log_event(2 * k, True, True), log_event(2 * k + 1, k % 2 == 0, False)]
    return exp


def obs_event(e):
    return (e.timestamp, e.data, tuple(e.values), e.tid, e.debugid, e.eventid, e.func_qualifier)


def section_snapshot(p):
    return repr((p.trace_codes, p.kernel_extensions, p.dyld_modules, p.processes, p.images))


def judge(blob, threads, recs, kseq, cpu, parser=None, offset=0, buffered=0):
    """offset: the dump begins `offset` bytes into the stream (the caller consumed a prefix); the stream is handed over positioned there."""
    bad = []
    p = parser if parser is not None else KdBufParser({99: 1}, {1: 'stale'})
    out = []
    err = None
    tables_at_first = None
    late_table = []
    stream = io.BytesIO(bytes((i * 11 + 3) % 255 + 1 for i in range(offset)) + blob)
    stream.seek(offset)
    if buffered:
        # the kind of stream open(path, 'rb') gives, with a small buffer: tags and words straddle buffer boundaries
        stream = io.BufferedReader(stream, buffer_size=buffered)
    try:
        for x in p.parse(stream):
            if tables_at_first is None:
                tables_at_first = (dict(p.threads_pids), dict(p.pids_names))
            if isinstance(x, OsLogEvent) and x.process and x.thread_identifier and not late_table:
                # a log record that names a process and a thread has extended the tables by the time it is handed out
                if p.threads_pids.get(x.thread_identifier) != x.process_identifier or p.pids_names.get(x.process_identifier) != x.process:
                    late_table.append((x.thread_identifier, x.process_identifier, x.process))
            out.append(x)
    except Exception as ex:
        err = f'{type(ex).__name__}: {ex}'
    if err:
        return [('v3-parse-raised', {'err': err, 'n_out': len(out)})]
    if late_table:
        bad.append(('v3-log-record-handed-out-before-the-tables-hold-it', {'record': repr(late_table[0])}))
    exp_ev = [ref_decode(r) for r in recs]
    first_log = next((i for i, x in enumerate(out) if isinstance(x, OsLogEvent)), len(out))
    evs = out[:first_log]
    logs = out[first_log:]
    if any(not isinstance(x, OsLogEvent) for x in logs):
        bad.append(('v3-event-after-log', {}))
    got_ev = [obs_event(e) for e in evs if not isinstance(e, OsLogEvent)]
    if got_ev != exp_ev:
        bad.append(('v3-events', {'got_n': len(got_ev), 'exp_n': len(exp_ev)}))
    exp_tp, exp_pn = thread_tables(threads)
    if tables_at_first is not None and first_log > 0 and tables_at_first != (exp_tp, exp_pn):
        bad.append(('v3-thread-tables', {'got': repr(tables_at_first), 'exp': repr((exp_tp, exp_pn))}))
    m = expected_meta(kseq)
    try:
        first_read = section_snapshot(p)
    except Exception as ex:
        return bad + [('v3-section-read-raised', {'err': repr(ex)[:200]})]
    if p.trace_codes != m['codes']:
        bad.append(('v3-trace-codes', {'got': p.trace_codes, 'exp': m['codes']}))
    if p.kernel_extensions.get('Binaries') != m['kexts']:
        bad.append(('v3-kexts', {'got': repr(p.kernel_extensions), 'exp': repr(m['kexts'])}))
    if (p.dyld_modules.get('Binaries', []) if p.dyld_modules else []) != m['dyld']:
        bad.append(('v3-dyld-modules', {'got': repr(p.dyld_modules), 'exp': repr(m['dyld'])}))
    if m['dyld'] and p.dyld_modules.get('Extra') not in range(len(m['dyld'])):
        bad.append(('v3-dyld-modules-scalar', {'got': repr(p.dyld_modules)}))
    # a section that comes in ONE block is exposed equal to its payload, whatever further keys the payload has; with several blocks the
    # lists are concatenated (above) and a further key, if shown, has the value one of the blocks gave it
    nk, nd = list(kseq).count('kexts'), list(kseq).count('dyld')
    if nk == 1 and p.kernel_extensions != {'Binaries': m['kexts'], 'Extra': 0}:
        bad.append(('v3-single-block-section-not-equal-to-its-payload:kernel-extensions', {'got': repr(p.kernel_extensions)}))
    if nd == 1 and p.dyld_modules != {'Binaries': m['dyld'], 'Extra': 0}:
        bad.append(('v3-single-block-section-not-equal-to-its-payload:dyld-modules', {'got': repr(p.dyld_modules)}))
    if nk > 1 and p.kernel_extensions.get('Extra', 0) not in range(nk) or set(p.kernel_extensions) - {'Binaries', 'Extra'}:
        bad.append(('v3-kexts-scalar', {'got': repr(p.kernel_extensions)}))
    if (m['procs'] and p.processes not in m['procs']) or (not m['procs'] and p.processes != {}):
        bad.append(('v3-processes', {'got': repr(p.processes), 'exp': repr(m['procs'])}))
    if (m['images'] and p.images not in m['images']) or (not m['images'] and p.images != {}):
        bad.append(('v3-images', {'got': repr(p.images), 'exp': repr(m['images'])}))
    if cpu is not None and (p.v3_header is None or p.v3_header.cpu_info != cpu):
        bad.append(('v3-header-cpu-info', {}))
    if section_snapshot(p) != first_read:
        bad.append(('v3-section-changes-when-read-again', {'first': first_read[:200], 'again': section_snapshot(p)[:200]}))
    # logs
    rev = {v: k for k, v in STRINGS.items()}
    if len(logs) != len(m['logs']):
        bad.append(('v3-log-count', {'got': len(logs), 'exp': len(m['logs'])}))
    else:
        for lg, raw in zip(logs, m['logs']):
            if (lg.composed_message != rev[raw['cm']] or lg.size != raw['s'] or lg.thread_identifier != raw['tid']
                    or lg.mach_continuous_timestamp != raw['mct']
                    or lg.process != (rev[raw['p']] if 'p' in raw else '')
                    or lg.process_identifier != raw.get('pid', 0)):
                bad.append(('v3-log-content', {'got': repr(lg)[:300], 'raw': repr(raw)[:300]}))
                break
            ti = lg.trace_identifier
            gen = (raw['ti'] >> 16) & 0xff
            if ti is None or (bool(ti.has_unique_pid), bool(ti.has_large_offset), bool(ti.has_current_aid), ti.code) != (bool(gen & 0x10), bool(gen & 0x20), bool(gen & 1), raw['ti'] >> 32):
                bad.append(('v3-log-content:trace-identifier', {'got': repr(ti)[:300], 'word': hex(raw['ti'])}))
                break
            if 'dm' in raw:
                segs = (lg.decomposed_message or {}).get('segments') or [{}, {}]
                want = [raw['dm']['seg'][0]['a']['or'], rev[raw['dm']['seg'][1]['a']['or']]]
                got_or = [sg.get('arg', {}).get('object_representation') for sg in segs]
                if got_or != want or segs[0].get('literal_prefix') != rev[1] or segs[1].get('placeholder', {}).get('raw_string') != rev[4]:
                    bad.append(('v3-log-content:decomposed-message', {'got': repr(lg.decomposed_message)[:300], 'expected_representations': repr(want)}))
                    break
        for raw in m['logs']:
            if 'p' in raw and raw['tid']:
                exp_tp[raw['tid']] = raw['pid']
                exp_pn[raw['pid']] = rev[raw['p']]
    if (dict(p.threads_pids), dict(p.pids_names)) != (exp_tp, exp_pn):
        bad.append(('v3-final-tables', {'got': repr((p.threads_pids, p.pids_names)), 'exp': repr((exp_tp, exp_pn))}))
    return bad


def make(cpu_len, f1, f2, tmi, nrec, comp, with8, gap, kseq, strings_pos, last_pad=True):
    cpu = {'k': 'v' * cpu_len}
    threads = THREADMAPS[tmi]
    recs = RECS[:nrec]
    chunks = []
    i = 0
    for c in comp:
        chunks.append(recs[i:i + c])
        i += c
    count = {}
    ks = list(kseq)
    order = []
    for kind in ks:
        k = count.get(kind, 0)
        count[kind] = k + 1
        order.append((kind, k))
    if 'logs' in ks:
        # exactly one string index, at position strings_pos among the blocks
        order.insert(min(strings_pos, len(order)), ('strings', 0))
    blocks = [blk(kind, k, pad=(last_pad or i < len(order) - 1)) for i, (kind, k) in enumerate(order)]
    blob = B.v3(threads, chunks, blocks, filler1=FILL1[f1], filler2=FILL2[f2], with8=with8, cpu_info=cpu, gap=GAPS[gap])
    return blob, threads, recs, ks, cpu


DEFAULT = dict(cpu_len=0, f1=0, f2=0, tmi=0, nrec=3, comp=(3,), with8=True, gap=0, kseq=(), strings_pos=0, last_pad=True)


class C03(Check):
    pid = 'C03'
    level = 'model_checking'
    rule = ('version-3 dumps written by an independent encoder. Sub-space "core": full product of cpu-info plist length residue '
            '(8) x filler before the stackshot sentinel (10 shapes incl. sentinel prefixes, the thread-map tag, event tags) x '
            'filler before the thread-map tag (7) x all compositions of m in {0,1,3} records into 1..3 chunks (empty chunks '
            'included) x both chunk-size conventions. Sub-space "meta": all sequences of <=3 (quick) / <=4 (thorough) '
            'metadata/log blocks over 7 kinds (dyld modules, trace codes, processes, kexts, images, log events, unknown tag) '
            'with occurrence-numbered payloads, the string index placed at every position, x thread maps (4) x gap bytes after '
            'MORE_EVENTS (4). Sub-space "blocks": every filler length 362..531, 3946..4115, 8042..8211 before the stackshot sentinel, before the thread-map tag and after MORE_EVENTS (a tag at / across every 512/4096/8192-byte block boundary). Sub-space "gapraw": the next events tag 0..80 bytes after a MORE_EVENTS tag, in every chunking of 3 records. Sub-space "tagged": records whose first bytes are container tags / the v3 magic, in every position and chunking. Sub-space "order": records with equal and decreasing timestamps in every order and chunking stay in file order. Sub-space "cli": the processes / kexts / images commands print the sections as JSON. Sub-space "long": 2^k-1, 2^k, 2^k+1 records (k = 6..12) in 1..3 chunks; 2^k-1..2^k+1 chunks (k = 6..11) of one record; dumps that begin 1..4100 bytes into the stream; the filler sweep around 512 also through io.BufferedReader with 512- and 64-byte buffers. Every section is read twice and must not change. An embedded code table cut into 2..5 blocks inside its multi-byte characters. Log blocks whose plist stores a time-zone / date dict, a backtrace frame or a whole record once and refers to it several times. Sub-space "reuse": ONE parser object parses '
            'two dumps in turn (6 x 6 block sequences x 3 map pairs); the second parse must leave the second dump\'s metadata only. Oracle: events all/in order/== independent decode/before any log; tables after the thread-map '
            'chunk and after logs; list-valued sections concatenated in file order; scalar sections equal one of their '
            'payloads; logs in order with strings resolved. non-trivial = >=2 chunks or >=2 blocks. states = distinct '
            '(tables, metadata) end states; transitions = parse() generator steps.')
    assumptions = ('v3 writer is a frozen transcription of the layout the pinned parser consumes (no sample v3 file exists in the '
                   'repository): trusted base', 'filler never contains the sentinel it precedes (inherent to a sentinel-scanned format)',
                   'exactly one log string index per dump; if a scalar section occurs twice either payload is accepted')

    def bounds(self):
        return {'meta_seq_len': 3 if self.tier == 'quick' else 4, 'core_records': [0, 1, 3], 'core_chunks': [1, 2, 3]}

    def shards(self):
        out = []
        for cpu_len in range(8):
            for f1 in range(len(FILL1)):
                out.append(('core', cpu_len, f1))
        L = 3 if self.tier == 'quick' else 4
        kseqs = list(seqs(KINDS, L))
        for ch in chunked(kseqs, 48):
            out.append(('meta', ch))
        out.append(('long',))
        out.append(('reuse',))
        out += [('blocks', which) for which in ('filler1', 'filler2', 'gap')]
        out.append(('gapraw',))
        out.append(('tagged',))
        out.append(('cli',))
        out.append(('order',))
        return out

    def run_shard(self, desc, acc):
        if desc[0] == 'core':
            _, cpu_len, f1 = desc
            for f2 in range(len(FILL2)):
                for m in (0, 1, 3):
                    for k in (1, 2, 3):
                        for comp in compositions(m, k):
                            for with8 in (True, False):
                                self._one(acc, dict(DEFAULT, cpu_len=cpu_len, f1=f1, f2=f2, nrec=m, comp=comp, with8=with8,
                                                    kseq=('codes',)), nontrivial=k >= 2)
        elif desc[0] == 'long':
            for n in sorted({2 ** k + d for k in range(6, 13) for d in (-1, 0, 1)} | {1500}):
                recs = [B.rec(1000 + i, (i, i * 3, 7, 9), 1 + i % 3, 0x040c0004 | (i % 4)) for i in range(n)]
                for comp in ((n,), (1, n - 1), (n // 2, 0, n - n // 2), (n - 1, 1)):
                    chunks, i = [], 0
                    for c in comp:
                        chunks.append(recs[i:i + c])
                        i += c
                    blob = B.v3(THREADMAPS[0], chunks, [blk('codes', 0)])
                    bad = judge(blob, THREADMAPS[0], recs, ['codes'], None)
                    acc.case(nontrivial=True, transitions=n + 1, state=h64(('long', n, comp)), outcome=h64(('long', n, comp)))
                    for sig, detail in bad:
                        acc.violation(sig + ':long-dump', {'kind': 'long', 'n': n, 'comp': list(comp)}, detail)
            # many chunks of one record each (a chunk loop that nests / recurses per chunk is invisible to <=3 chunks)
            for n in sorted({2 ** k + d for k in range(6, 12) for d in (-1, 0, 1)}):
                recs = [B.rec(1000 + i, (i, i * 3, 7, 9), 1 + i % 3, 0x040c0004 | (i % 4)) for i in range(n)]
                blob = B.v3(THREADMAPS[0], [[r] for r in recs], [blk('codes', 0)])
                bad = judge(blob, THREADMAPS[0], recs, ['codes'], None)
                acc.case(nontrivial=True, transitions=n + 1, state=h64(('chunks', n)), outcome=h64(('chunks', n)))
                for sig, detail in bad:
                    acc.violation(sig + ':many-chunks', {'kind': 'long', 'n': n, 'comp': 'one-per-record'}, detail)
            # an embedded code table cut into blocks in the middle of a multi-byte character: the concatenation is valid text
            text = '0x1 NAM\u00e9 x\n0x2 B\u20acC\n0x3 D\n'.encode('utf-8')
            for cuts in ((8,), (8, 9), (19,), (19, 20), (18, 19, 20), (1, 8, 19, 30)):
                parts = [text[a:b] for a, b in zip((0,) + cuts, cuts + (len(text),))]
                for pad in (True, False):
                    blocks = [B.v3_block(B.TAG_TRACE_CODES, part, pad or i < len(parts) - 1) for i, part in enumerate(parts)]
                    p = KdBufParser({}, {})
                    try:
                        list(p.parse(io.BytesIO(B.v3(THREADMAPS[0], [RECS[:2]], blocks))))
                        got = p.trace_codes
                    except Exception as ex:
                        got = 'RAISED ' + type(ex).__name__
                    acc.case(nontrivial=True, transitions=len(parts) + 1, state=h64(('codes-split', cuts)), outcome=h64(('codes-split', cuts)))
                    if got != text.decode('utf-8'):
                        acc.violation('v3-trace-codes:character-split-between-blocks', {'kind': 'long', 'cuts': list(cuts), 'pad': pad}, {'got': repr(got)[:200]})
            # log blocks whose plist stores an object ONCE and refers to it several times (the reader hands out one Python object per
            # stored object): one time-zone / date dict shared by all records and within a record; a whole record listed twice
            tz, ud = {'mw': -60, 'dt': 1}, {'sec': 1600000000, 'usec': 250000}

            def rec_(i, **kw):
                e = {'cm': 1, 't': 'logEvent', 's': 10 + i, 'tid': 100 + i, 'ns': 5, 'mct': 6 + i, 'b': b'B' * 16, 'piu': b'P' * 16, 'ud': ud, 'utz': tz, 'p': 0, 'pid': 40 + i}
                e.update(kw)
                return e
            r0 = rec_(0)
            frame = {'iu': b'U' * 16, 'io': 5}
            variants = {'zone-and-date-shared-by-all-records': [rec_(0), rec_(1), rec_(2)],
                        'zone-shared-within-a-record': [rec_(0, lsutz=tz, leutz=tz, lsud=ud, leud=ud, lsmct=1, lemct=2, lc={'c': 3, 's': True}), rec_(1, lsutz=tz)],
                        'backtrace-frame-listed-twice': [rec_(0, bt=[frame, frame]), rec_(1, bt=[frame])],
                        'record-listed-twice': [r0, rec_(1), r0]}
            for label, evs in variants.items():
                blocks = [B.v3_block(B.TAG_LOG_STRINGS, B.bplist({'StringIndex': STRINGS})), B.v3_block(B.TAG_LOG_EVENTS, B.bplist({'Events': evs}))]
                p = KdBufParser({}, {})
                try:
                    out = [x for x in p.parse(io.BytesIO(B.v3(THREADMAPS[0], [RECS[:1]], blocks))) if isinstance(x, OsLogEvent)]
                    got = [(x.size, x.thread_identifier, x.unix_timezone, x.unix_date.timestamp()) for x in out]
                except Exception as ex:
                    got = 'RAISED ' + type(ex).__name__ + ' ' + str(ex)[:60]
                exp = [(e['s'], e['tid'], {'minutes_west': -60, 'dst_time': 1}, 1600000000.25) for e in evs]
                acc.case(nontrivial=True, transitions=len(evs) + 1, state=h64(('shared', label)), outcome=h64(('shared', label)))
                if got != exp:
                    acc.violation('v3-logs:objects-stored-once-and-referred-to-twice', {'kind': 'long', 'variant': label}, {'got': repr(got)[:300], 'expected_n': len(exp)})
            # a log record that names a process and a thread but carries no process id cannot extend the tables (it must not be filed
            # under pid 0, which is a real process)
            nopid = rec_(5)
            del nopid['pid']
            blocks = [B.v3_block(B.TAG_LOG_STRINGS, B.bplist({'StringIndex': STRINGS})), B.v3_block(B.TAG_LOG_EVENTS, B.bplist({'Events': [rec_(0), nopid]}))]
            tp, pn = {}, {}
            try:
                n = len(list(KdBufParser(tp, pn).parse(io.BytesIO(B.v3([(9, 0, 'kernel_task')], [RECS[:1]], blocks)))))
            except Exception as ex:
                n = 'RAISED ' + type(ex).__name__
            acc.case(nontrivial=True, transitions=3, state=h64('log-without-pid'))
            if n != 3 or tp != {9: 0, 100: 40} or pn != {0: 'kernel_task', 40: 'procname'}:
                acc.violation('v3-final-tables:log-record-without-a-process-id-filed-under-pid-0', {'kind': 'long', 'variant': 'log-without-pid'}, {'n': n, 'tp': repr(tp), 'pn': repr(pn)})
            # the dump does not begin at stream position 0
            for off in (1, 7, 8, 9, 64, 0x100, 0x120, 0x123, 4091, 4096, 4100):
                for comp in ((3,), (1, 2), (1, 0, 2)):
                    for kseq in ((), ('codes',), ('kexts', 'logs', 'codes')):
                        params = dict(DEFAULT, comp=comp, kseq=kseq, cpu_len=off % 8, f1=off % len(FILL1), f2=off % len(FILL2))
                        blob, threads, recs, ks, cpu = make(**params)
                        bad = judge(blob, threads, recs, ks, cpu, offset=off)
                        acc.case(nontrivial=True, transitions=4, state=h64(('offset', off, comp)), outcome=h64(('offset', off % 8)))
                        for sig, detail in bad:
                            acc.violation(sig + ':dump-not-at-stream-start', {'kind': 'long', 'offset': off, 'comp': list(comp), 'kseq': list(kseq)}, detail)
        elif desc[0] == 'blocks':
            # a scanner that reads in blocks: every filler length that puts a tag at / across a 4096- or 8192-byte boundary
            which = desc[1]
            recs = RECS[:3]
            for target in (512, 4096, 8192):
                for L in range(target - 150, target + 20):
                    fill = bytes((i * 7 + 1) % 251 + 1 for i in range(L))      # no zero bytes, never contains a tag
                    kw = dict(threads=THREADMAPS[0], chunks=[recs[:1], recs[1:]], blocks=[blk('codes', 0)])
                    if which == 'filler1':
                        kw['filler1'] = fill
                    elif which == 'filler2':
                        kw['filler2'] = fill
                    else:
                        kw['gap'] = fill
                    blob = B.v3(**kw)
                    bad = judge(blob, THREADMAPS[0], recs, ['codes'], None)
                    acc.case(nontrivial=True, transitions=4, state=h64(('blocks', which, L)), outcome=h64(('blocks', which)))
                    for sig, detail in bad:
                        acc.violation(sig + ':long-filler', {'kind': 'blocks', 'which': which, 'len': L}, detail)
                    if target == 512:
                        # the same dumps through a buffered reader whose buffer is 512 / 64 bytes
                        for bs in (512, 64):
                            bad = judge(blob, THREADMAPS[0], recs, ['codes'], None, buffered=bs)
                            acc.case(nontrivial=True, transitions=4, state=h64(('blocks-buffered', which, L, bs)), outcome=h64(('blocks-buffered', which)))
                            for sig, detail in bad:
                                acc.violation(sig + ':buffered-reader', {'kind': 'blocks', 'which': which, 'len': L, 'buffer': bs}, detail)
        elif desc[0] == 'gapraw':
            # nothing is known about what follows a MORE_EVENTS tag except that the next events tag does: every distance 0..80
            recs = RECS[:3]
            for L in range(0, 81):
                for comp in ((1, 2), (2, 1), (1, 1, 1)):
                    chunks, i = [], 0
                    for c in comp:
                        chunks.append(recs[i:i + c])
                        i += c
                    fill = bytes((i * 7 + 1) % 251 + 1 for i in range(L))
                    if L > 74:
                        fill = fill[:8] + ET[:L - 74]      # the last six lengths: the filler ends with the first 1..6 bytes of the events tag
                    blob = B.v3(threads=THREADMAPS[0], chunks=chunks, blocks=[blk('codes', 0)], gap=fill, more_word=b'')
                    bad = judge(blob, THREADMAPS[0], recs, ['codes'], None)
                    acc.case(nontrivial=True, transitions=4, state=h64(('gapraw', L, comp)), outcome=h64(('gapraw', L % 8)))
                    for sig, detail in bad:
                        acc.violation(sig + ':events-tag-close-after-more-events', {'kind': 'gapraw', 'len': L, 'comp': list(comp)}, detail)
        elif desc[0] == 'tagged':
            for seq in itertools.product(range(len(TAGGED) + 1), repeat=3):
                recs = [(TAGGED + [RECS[0]])[i] for i in seq]
                for comp in ((3,), (1, 2), (2, 1), (1, 1, 1)):
                    chunks, i = [], 0
                    for c in comp:
                        chunks.append(recs[i:i + c])
                        i += c
                    blob = B.v3(THREADMAPS[0], chunks, [blk('codes', 0)])
                    bad = judge(blob, THREADMAPS[0], recs, ['codes'], None)
                    acc.case(nontrivial=True, transitions=4, state=h64(('tagged', seq, comp)), outcome=h64(('tagged', seq)))
                    for sig, detail in bad:
                        acc.violation(sig + ':record-looks-like-a-tag', {'kind': 'tagged', 'seq': list(seq), 'comp': list(comp)}, detail)
        elif desc[0] == 'order':
            # equal and decreasing timestamps, argument bytes in every relative order: events come out in FILE order
            pool = [B.rec(ts, (a, 0, 0, 0), 9, 0x040c0004 | q) for ts, a, q in ((5, 9, 2), (5, 1, 1), (5, 5, 0), (4, 7, 1), (6, 0, 2))]
            for perm in itertools.permutations(range(len(pool)), 4):
                recs = [pool[i] for i in perm]
                for comp in ((4,), (2, 2), (1, 3), (3, 1)):
                    chunks, i = [], 0
                    for c in comp:
                        chunks.append(recs[i:i + c])
                        i += c
                    blob = B.v3(THREADMAPS[0], chunks, [blk('codes', 0)])
                    bad = judge(blob, THREADMAPS[0], recs, ['codes'], None)
                    acc.case(nontrivial=True, transitions=5, state=h64(('order', perm, comp)), outcome=h64(('order', perm)))
                    for sig, detail in bad:
                        acc.violation(sig + ':records-not-in-file-order', {'kind': 'order', 'perm': list(perm), 'comp': list(comp)}, detail)
        elif desc[0] == 'cli':
            import json
            from mc.cli import run_cli
            for kseq in [('procs',), ('kexts', 'kexts'), ('images',), ('dyld', 'kexts', 'procs', 'images'), (),
                         ('logs', 'procs', 'images', 'kexts'), ('procs', 'logs'), ('kexts', 'logs', 'images', 'logs')]:      # dumps that also hold log records
                blob, threads, recs, ks, cpu = make(**dict(DEFAULT, kseq=kseq))
                m = expected_meta(ks)
                nk = list(ks).count('kexts')
                kx = [{'Binaries': m['kexts']}] if nk == 0 else [{'Binaries': m['kexts'], 'Extra': 0}] if nk == 1 else \
                     [{'Binaries': m['kexts']}] + [{'Binaries': m['kexts'], 'Extra': j} for j in range(nk)]
                for cmd, exp in (('processes', m['procs'][-1:] or [{}]), ('kexts', kx), ('images', m['images'][-1:] or [{}])):
                    code, lines, exc = run_cli(blob, [cmd])
                    acc.case(nontrivial=bool(kseq), transitions=1, state=h64(('cli', cmd, kseq)))
                    try:
                        got = json.loads('\n'.join(lines))
                    except Exception:
                        got = None
                    if code != 0 or exc is not None or got not in exp:
                        acc.violation('v3-cli-metadata-command:' + cmd, {'kind': 'cli', 'kseq': list(kseq)},
                                      {'exit': code, 'error': repr(exc)[:200], 'got': repr(got)[:200], 'expected': repr(exp)[:200]})
        elif desc[0] == 'reuse':
            # ONE KdBufParser object parses two different dumps one after the other: after the second parse its metadata and
            # tables are those of the second dump only
            seqs2 = [('kexts', 'codes', 'dyld'), ('procs', 'images'), (), ('logs', 'kexts'), ('codes',), ('dyld', 'dyld', 'kexts')]
            for k1 in seqs2:
                for k2 in seqs2:
                    for tm1, tm2 in ((0, 1), (3, 0), (1, 3)):
                        p = KdBufParser({}, {})
                        blob1, th1, recs1, ks1, cpu1 = make(**dict(DEFAULT, tmi=tm1, kseq=k1, nrec=2, comp=(2,)))
                        blob2, th2, recs2, ks2, cpu2 = make(**dict(DEFAULT, tmi=tm2, kseq=k2, nrec=3, comp=(1, 2), cpu_len=3))
                        bad = []
                        try:
                            list(p.parse(io.BytesIO(blob1)))
                            bad = judge(blob2, th2, recs2, ks2, cpu2, parser=p)
                        except Exception as ex:
                            bad = [('v3-parse-raised', {'err': repr(ex)[:200]})]
                        acc.case(nontrivial=True, transitions=7, state=h64(('reuse', k2, tm2)), outcome=h64(('reuse', k1, k2)))
                        for sig, detail in bad:
                            acc.violation(sig + ':parser-reused', {'kind': 'reuse', 'k1': list(k1), 'k2': list(k2), 'tm': [tm1, tm2]}, detail)
        else:
            for kseq in desc[1]:
                nlog = 1 + len(kseq) if 'logs' in kseq else 1
                for sp in range(nlog):
                    for tmi in range(len(THREADMAPS)):
                        for gap in range(len(GAPS)):
                            comp = (1, 0, 2) if gap else (3,)
                            for last_pad in ((True, False) if kseq else (True,)):
                                self._one(acc, dict(DEFAULT, tmi=tmi, gap=gap, comp=comp, kseq=tuple(kseq), strings_pos=sp,
                                                    cpu_len=(len(kseq) + tmi) % 8, last_pad=last_pad),
                                          nontrivial=len(kseq) >= 2)

    def _one(self, acc, params, nontrivial):
        blob, threads, recs, ks, cpu = make(**params)
        bad = judge(blob, threads, recs, ks, cpu)
        acc.case(nontrivial=nontrivial, transitions=len(recs) + 1, state=h64((params['tmi'], tuple(ks))),
                 outcome=h64((len(recs), tuple(ks))))
        for sig, detail in bad:
            acc.violation(sig, {'params': {k: (list(v) if isinstance(v, tuple) else v) for k, v in params.items()},
                                'hex': blob.hex()}, detail)
        if not bad and nontrivial and acc.want_sample():
            acc.sample({k: (list(v) if isinstance(v, tuple) else v) for k, v in params.items()})

    def replay(self, case):
        if case.get('kind') in ('long', 'reuse', 'blocks', 'tagged', 'cli', 'order', 'gapraw'):
            from mc.run import Acc
            acc = Acc()
            self.run_shard((case['kind'], case.get('which')) if case['kind'] == 'blocks' else (case['kind'],), acc)
            return [(sig, v['cases'][0][1]) for sig, v in acc.violations.items()]
        params = dict(case['params'])
        params['comp'] = tuple(params['comp'])
        params['kseq'] = tuple(params['kseq'])
        blob, threads, recs, ks, cpu = make(**params)
        return judge(blob, threads, recs, ks, cpu)


if __name__ == '__main__':
    main(C03)
