"""C15 — callstacks take the sampled frames and attribute each to the right image.

All histories of <=d items over image announcements (adjacent/equal addresses, duplicates with another uuid), launch windows
with nested map records, and samples (header count above/below the data supplied, frames below/at/above every load address,
with/without the user-stack flag, on two threads), through TracesParser + CallstacksParser and through PyKdebugParser.callstacks.
Reference: a list of (address, uuid) kept by linear scan."""
import io
import itertools
import uuid

from mc.run import Check, main, h64
from mc import ev as E
from mc import build as B
from mc.space import seqs, chunked
from pykdebugparser.traces_parser import TracesParser
from pykdebugparser.callstacks_parser import CallstacksParser
from pykdebugparser.pykdebugparser import PyKdebugParser

U = [bytes([i]) * 16 for i in (1, 2)]
ADDR = [0, 0x1000, 0x2000, 0x2001, 0x3000]      # an image may be loaded at address 0
WORDS = sorted({a + d for a in ADDR for d in (-1, 0, 1) if a + d >= 0} | {0, 2 ** 64 - 1})


def img_event(a, u, tid=1, kind='DYLD_uuid_map_a'):
    return E.ev(kind, 0, tid=tid, data=U[u] + B.le(a, 8) + B.le(1, 8))


def sample_events(n, words, flags=8, tid=1, hflags=1):
    # header words 2 and 3 are not the frame count: they carry other values; word 0 is the header's own flag word
    evs = [E.ev('PERF_Event', 1, (flags, 1, 0, 0), tid), E.ev('PERF_STK_UHdr', 0, (hflags, n, 5, 3), tid)]
    for i in range(0, len(words), 4):
        w = list(words[i:i + 4])
        w += [0] * (4 - len(w))
        evs.append(E.ev('PERF_STK_UData', 0, w, tid))
    evs.append(E.ev('PERF_Event', 2, (flags, 0, 0, 0), tid))
    return evs


def make_items():
    items = []
    for a in ADDR:
        for u in range(2):
            items.append(('img', a, u, [img_event(a, u)]))
    # launch windows: nested map_a / shared_cache_a registered when (or before) the window closes
    items.append(('launch', ((0x1800, 0, 'a'),), None, [E.ev('DBG_DYLD_TIMING_LAUNCH_EXECUTABLE', 1, (0, 0x4000, 0, 0)), img_event(0x1800, 0),
                                                      E.ev('DBG_DYLD_TIMING_LAUNCH_EXECUTABLE', 2, (0, 0, 0, 0))]))
    items.append(('launch', ((0x2800, 1, 's'), (0x800, 0, 'a')), None,
                  [E.ev('DBG_DYLD_TIMING_LAUNCH_EXECUTABLE', 1, (0, 0x4000, 0, 0)), img_event(0x2800, 1, kind='DYLD_uuid_shared_cache_a'),
                   img_event(0x800, 0), E.ev('DBG_DYLD_TIMING_LAUNCH_EXECUTABLE', 2, (0, 0, 0, 0))]))
    # shared cache BELOW an image of the same launch, and between two images
    items.append(('launch', ((0x3000, 0, 'a'), (0x1800, 1, 's')), None,
                  [E.ev('DBG_DYLD_TIMING_LAUNCH_EXECUTABLE', 1, (0, 0x4000, 0, 0)), img_event(0x3000, 0), img_event(0x1800, 1, kind='DYLD_uuid_shared_cache_a'),
                   E.ev('DBG_DYLD_TIMING_LAUNCH_EXECUTABLE', 2, (0, 0, 0, 0))]))
    items.append(('launch', ((0x1000, 0, 'a'), (0x3000, 1, 'a'), (0x2001, 1, 's')), None,
                  [E.ev('DBG_DYLD_TIMING_LAUNCH_EXECUTABLE', 1, (0, 0x4000, 0, 0)), img_event(0x1000, 0), img_event(0x3000, 1),
                   img_event(0x2001, 1, kind='DYLD_uuid_shared_cache_a'), E.ev('DBG_DYLD_TIMING_LAUNCH_EXECUTABLE', 2, (0, 0, 0, 0))]))
    # two shared-cache records at ONE address with different identities inside one launch window: the first identity is kept
    items.append(('launch', ((0x2800, 0, 's'), (0x2800, 1, 's2')), None,
                  [E.ev('DBG_DYLD_TIMING_LAUNCH_EXECUTABLE', 1, (0, 0x4000, 0, 0)), img_event(0x2800, 0, kind='DYLD_uuid_shared_cache_a'),
                   img_event(0x2800, 1, kind='DYLD_uuid_shared_cache_a'), E.ev('DBG_DYLD_TIMING_LAUNCH_EXECUTABLE', 2, (0, 0, 0, 0))]))
    # stack headers whose own flag word lacks the valid bit (even values): the frames are still the first N words
    items.append(('samp-hdr', 4, tuple(WORDS[3:11]), 0x100))
    items.append(('samp-hdr', 3, tuple(WORDS[3:11]), 0))
    for n in (0, 1, 3, 4, 5, 9):
        for k in (0, 4, 8):
            items.append(('samp', n, tuple(WORDS[:k]) if k != 8 else tuple(WORDS[3:11]), None))
    items.append(('samp', 14, tuple(WORDS), None))
    items.append(('samp-noflag', 3, tuple(WORDS[:4]), None))
    items.append(('samp-tid2', 3, tuple(WORDS[4:8]), None))
    # other records of the same thread between the header and the data records / between two data records
    items.append(('samp-mixed', 7, tuple(WORDS[2:10]), None))
    # the first stack-data record stands in the stream AHEAD of the stack header (same window): the frames are still the first N
    # words of the window's data records in stream order
    items.append(('samp-data-first', 6, tuple(WORDS[2:10]), None))
    # a sample window whose END was lost (START, header, data, no END): the next sample of the thread must not inherit anything
    items.append(('samp-unfinished', 4, tuple(WORDS[8:12]), None))
    # stack headers whose own flag word has other declared bits set (PC fix-up, truncated, 64-bit, ...): the frames are still the first N words
    items.append(('samp-hdr', 4, tuple(WORDS[3:11]), 0x101))
    items.append(('samp-hdr', 8, tuple(WORDS[3:11]), 0x1ff))
    # header counts with the top bit set (more frames announced than any window holds: all words present are frames)
    items.append(('samp', 2 ** 63, tuple(WORDS[:4]), None))
    items.append(('samp', 2 ** 64 - 1, tuple(WORDS[3:11]), None))
    # a sample that overlaps a call of the same thread without nesting: read.START sample.START ... read.END sample.END
    items.append(('samp-cross', 5, tuple(WORDS[2:10]), None))
    # samples whose flags also ask for thread info (and more) while the window holds no thread-data record: the stack is still a stack
    for fl in (0x9, 0xb, 0x89):
        items.append(('samp-flags', 4, tuple(WORDS[5:9]), fl))
    # null words are frames like any other: at the end of a data record, as the last counted frame, as a whole tail
    items.append(('samp', 4, (0x1001, 0, 0x2001, 0), None))
    items.append(('samp', 7, (0x1001, 0, 0, 0, 0x2001, 0, 0x3000, 0), None))
    items.append(('samp', 8, (0x1001, 0x2001, 0, 0, 0, 0, 0, 0), None))
    # words at and above 2^47 (tagged / signed pointers, kernel addresses) under a header with the 64-bit flag and without it: frames are
    # the words as they are
    big = (2 ** 47, 2 ** 47 + 0x1001, 2 ** 63 + 0x2001, 2 ** 64 - 1)
    items.append(('samp-hdr', 4, big, 0x5))
    items.append(('samp-hdr', 4, big, 0x1))
    # un-map records are not announcements
    items.append(('unmap', 0x2001, 1, [img_event(0x2001, 1, kind='DYLD_uuid_unmap_a')]))
    items.append(('unmap', 0x0800, 0, [img_event(0x0800, 0, kind='DYLD_uuid_unmap_a')]))
    return items


ITEMS = make_items()


def events_of(it):
    if it[0] in ('img', 'launch', 'unmap'):
        return it[3]
    if it[0] == 'samp-flags':
        return sample_events(it[1], it[2], flags=it[3])
    if it[0] == 'samp-hdr':
        return sample_events(it[1], it[2], hflags=it[3])
    if it[0] == 'samp':
        return sample_events(it[1], it[2])
    if it[0] == 'samp-cross':
        evs = sample_events(it[1], it[2])
        return [E.ev('BSC_read', 1, (3, 0x7000, 64, 0))] + evs[:-1] + [E.ev('BSC_read', 2, (0, 63, 0, 0))] + evs[-1:]
    if it[0] == 'samp-noflag':
        return sample_events(it[1], it[2], flags=1)
    if it[0] == 'samp-unfinished':
        return sample_events(it[1], it[2])[:-1]
    if it[0] == 'samp-data-first':
        evs = sample_events(it[1], it[2])
        # PERF_Event S, UData, UHdr, UData, PERF_Event E
        return evs[:1] + evs[2:3] + evs[1:2] + evs[3:]
    if it[0] == 'samp-mixed':
        evs = sample_events(it[1], it[2], flags=9)
        # PERF_Event S, UHdr, [THD_Data], UData, [unrelated], UData, PERF_Event E
        return evs[:2] + [E.ev('PERF_THD_Data', 0, (10, 77, 0, 1))] + evs[2:3] + [E.ev('MACH_WAIT', 0, (0x10, 0, 0, 0))] + evs[3:]
    return sample_events(it[1], it[2], tid=2)


def run_layers(seq):
    p = TracesParser(E.codes(), {}, {})
    c = CallstacksParser([], [])
    evs = []
    for it in seq:
        evs += events_of(ITEMS[it])
    evs = E.restamp(evs)
    got = list(c.feed_generator(p.feed_generator(evs)))
    return [(x.timestamp, x.tid, [tuple(f) for f in x.frames]) for x in got]


def run_facade(seq):
    evs = []
    for it in seq:
        evs += events_of(ITEMS[it])
    recs = [B.rec(i + 1, tid=e.tid, debugid=e.debugid, data=e.data) for i, e in enumerate(evs)]
    f = PyKdebugParser()
    got = list(f.callstacks(io.BytesIO(B.v2([(1, 10, 'A')], 0, recs)), dict(E.codes())))
    out = [(x.timestamp - 1, x.tid, [tuple(fr) for fr in x.frames]) for x in got]
    # the same dump written under ANOTHER numbering of the sampler / loader codes, listed with the table of that numbering: the same
    # call stacks (the supplied table is the one in force)
    tc = dict(E.codes())
    moved = {c: c + 0x40000 for c, nm in tc.items() if nm.startswith(('PERF_', 'DYLD_', 'DBG_DYLD_'))}
    tc2 = {moved.get(c, c): nm for c, nm in tc.items()}
    recs2 = [B.rec(i + 1, tid=e.tid, debugid=moved.get(e.eventid, e.eventid) | e.func_qualifier, data=e.data) for i, e in enumerate(evs)]
    got2 = list(PyKdebugParser().callstacks(io.BytesIO(B.v2([(1, 10, 'A')], 0, recs2)), tc2))
    out2 = [(x.timestamp - 1, x.tid, [tuple(fr) for fr in x.frames]) for x in got2]
    if out2 != out:
        raise TableNotHonoured(f'{len(out2)} call stacks under the renumbered table, {len(out)} under the bundled numbering')
    return out


class TableNotHonoured(Exception):
    pass


def ref(seq):
    """returns list of (pos, tid, frames-with-alternatives). Each frame: (address, set of allowed (uuid, offset))"""
    imgs = []          # announced for sure: (addr, uuid)
    out = []
    pos = 0
    for idx in seq:
        it = ITEMS[idx]
        n_ev = len(events_of(it))
        if it[0] == 'img':
            if all(a != it[1] for a, _ in imgs):
                imgs.append((it[1], uuid.UUID(bytes=U[it[2]])))
        elif it[0] == 'launch':
            # nested map_a records are stand-alone traces too (registered at their own position); nested shared-cache
            # records are registered when the window closes. No sample sits inside a launch window in this space, so
            # both are simply announced by the end of the item, in address order among themselves.
            for a, u, kind in sorted(it[1], key=lambda x: (x[2] != 'a', x[0])):
                if all(x != a for x, _ in imgs):
                    imgs.append((a, uuid.UUID(bytes=U[u])))
        elif it[0] in ('samp', 'samp-tid2', 'samp-mixed', 'samp-data-first', 'samp-hdr', 'samp-cross', 'samp-flags'):
            words = list(it[2]) + [0] * ((-len(it[2])) % 4)
            frames = words[:it[1]]
            fr = []
            for f in frames:
                best = None
                for a, u in imgs:
                    if a <= f and (best is None or a > best[0]):
                        best = (a, u)
                fr.append((f, best[1], f - best[0]) if best else (f, None, None))
            out.append((pos + (1 if it[0] == 'samp-cross' else 0), 2 if it[0] == 'samp-tid2' else 1, fr))
        pos += n_ev
    return out


def judge(seq, via):
    try:
        got = run_layers(seq) if via == 'layers' else run_facade(seq)
    except Exception as ex:
        return ('callstacks-raised:' + type(ex).__name__, {'error': repr(ex)[:200]})
    exp = ref(seq)
    if len(got) != len(exp):
        return ('callstack-count', {'got': len(got), 'expected': len(exp)})
    for g, x in zip(got, exp):
        if g[0] != x[0] or g[1] != x[1]:
            return ('callstack-not-stamped-with-sample-START', {'got': g[:2], 'expected': x[:2]})
        if [f[0] for f in g[2]] != [f[0] for f in x[2]]:
            return ('callstack-frames-not-first-N-words', {'got': [hex(f[0]) for f in g[2]], 'expected': [hex(f[0]) for f in x[2]]})
        for gf, xf in zip(g[2], x[2]):
            if gf != xf:
                return ('frame-attributed-to-wrong-image', {'frame': hex(gf[0]), 'got': repr(gf[1:]), 'expected': repr(xf[1:])})
            if gf[2] is not None and gf[2] < 0:
                return ('negative-offset', {'frame': hex(gf[0])})
    return None


def judge_same_tick_recursion():
    """a recursion: consecutive stack-data records that hold the SAME four words, the whole sample logged within one tick (every
    record carries the same timestamp), through the two layers and as a dump file through the facade."""
    import io
    from mc import build as B
    from pykdebugparser.pykdebugparser import PyKdebugParser
    r, leaf, main_ = 0x2345, 0x1111, 0x3333
    bad = []
    for n, words in ((8, (r,) * 8), (13, (leaf, r, r, r) + (r,) * 8 + (main_, 0, 0, 0)), (6, (r,) * 12), (4, (0,) * 8)):
        evs = [e._replace(timestamp=7) for e in sample_events(n, words)]
        want = list(words)[:n]
        try:
            got = [[f[0] for f in x.frames] for x in CallstacksParser([], []).feed_generator(TracesParser(E.codes(), {}, {}).feed_generator(iter(evs)))]
            blob = B.v2([], 0, [B.rec(7, tid=e.tid, debugid=e.debugid, data=e.data) for e in evs])
            got2 = [[f[0] for f in x.frames] for x in PyKdebugParser().callstacks(io.BytesIO(blob), dict(E.codes()))]
        except Exception as ex:
            return [('callstacks-raised:' + type(ex).__name__, {'error': repr(ex)[:200]})]
        for via, g in (('layers', got), ('facade', got2)):
            if g != [want]:
                bad.append(('callstack-frames-not-first-N-words:equal-records-on-one-tick', {'via': via, 'header_count': n, 'got': [[hex(x) for x in fr] for fr in g][:2], 'expected': [hex(x) for x in want]}))
                return bad
    return bad


def judge_permutation(addr_uuid_set, perm, sample_idx):
    """announce a set of distinct images in order `perm`, then sample: result must not depend on the order."""
    evs = []
    for i in perm:
        a, u = addr_uuid_set[i]
        evs.append(img_event(a, u))
    evs += sample_events(14, tuple(WORDS))
    p = TracesParser(E.codes(), {}, {})
    c = CallstacksParser([], [])
    got = list(c.feed_generator(p.feed_generator(E.restamp(evs))))
    return [tuple(f) for f in got[0].frames] if len(got) == 1 else None


class C15(Check):
    pid = 'C15'
    level = 'model_checking'
    rule = ('all histories of <=3 (quick) / <=4 (thorough) items over 36 item kinds: image announcements (4 addresses incl. adjacent '
            '0x2000/0x2001, x 2 uuids so that re-announcements with another identity occur), 4 launch windows with nested '
            'map/shared-cache records (cache above, below and between the images), samples with header count {0,1,3,4,5,9,14} x {0,1,2(+)} data records whose words are a-1, a, '
            'a+1 for every load address plus 0 and 2^64-1, a sample without the user-stack flag, a sample on a second thread, a sample with thread-data and unrelated records between its header and data records, a sample whose first data record stands ahead of its header, a sample window whose END was lost; plus deep stacks of 2^k-1..2^k+1 data records (k=6..12) after an announcement; '
            'through TracesParser+CallstacksParser (all histories) and through PyKdebugParser.callstacks on a v2 dump (histories '
            '<=2 quick / <=3 thorough). Plus all alternating histories announcement-sample-announcement-sample (depth 4) over every announcement and the samples with >=4 frames. Plus: for every set of <=4 distinct images all permutations of announcement order give '
            'identical attribution. Reference: linear scan over the list of announced (address, uuid), first identity wins. '
            'states = distinct announced-image lists; transitions = events fed; non-trivial = history with >=1 announcement before a sample.')
    assumptions = ('a nested shared-cache-map record is registered when its launch window closes; no sample is placed inside a launch '
                   'window, so the leniency of the design (announced anywhere between its position and that END) is not exercised',)

    def bounds(self):
        return {'items': len(ITEMS), 'history_len': 3 if self.tier == 'quick' else 4}

    def shards(self):
        L = 3 if self.tier == 'quick' else 4
        out = [('layers', L, i) for i in range(len(ITEMS))]
        out += [('facade', L - 1, i) for i in range(len(ITEMS))]
        out.append(('perm',))
        imgs = [i for i, it in enumerate(ITEMS) if it[0] in ('img', 'launch')]
        out += [('alt', i) for i in imgs]
        out += [('deep', k) for k in range(6, 13)]
        return out

    def run_shard(self, desc, acc):
        if desc[0] in ('layers', 'facade'):
            via, L, first = desc
            for n in range(0, L):
                for rest in itertools.product(range(len(ITEMS)), repeat=n):
                    seq = (first,) + rest
                    bad = judge(seq, via)
                    kinds = [ITEMS[i][0] for i in seq]
                    nontrivial = any(k.startswith('samp') and ('img' in kinds[:j] or 'launch' in kinds[:j]) for j, k in enumerate(kinds))
                    imgs = tuple(sorted({(ITEMS[i][1]) for i in seq if ITEMS[i][0] == 'img'}))
                    acc.case(nontrivial=nontrivial, transitions=sum(len(events_of(ITEMS[i])) for i in seq), state=h64(imgs),
                             outcome=h64((seq, bad is None)) if n < 2 else None)
                    if bad:
                        acc.violation(bad[0], {'kind': 'hist', 'seq': list(seq), 'via': via, 'readable': [str(ITEMS[i][:3]) for i in seq]}, bad[1])
                    elif acc.want_sample() and nontrivial and len(seq) == 3:
                        acc.sample({'history': [str(ITEMS[i][:3]) for i in seq], 'via': via})
        elif desc[0] == 'deep':
            k = desc[1]
            for nrec in (2 ** k - 1, 2 ** k, 2 ** k + 1):
                words = tuple(0x1000 + (i * 37) % 0x2100 for i in range(4 * nrec))
                ITEMS.append(('samp', 4 * nrec - 2, words, None))
                try:
                    seq = (0, len(ITEMS) - 1)
                    for via in ('layers', 'facade'):
                        bad = judge(seq, via)
                        acc.case(nontrivial=True, transitions=nrec + 4, outcome=h64(('deep', nrec, via)))
                        if bad:
                            acc.violation(bad[0] + ':deep-stack', {'kind': 'deep', 'k': k, 'records': nrec, 'via': via}, bad[1])
                finally:
                    ITEMS.pop()
        elif desc[0] == 'alt':
            # announcement, sample, announcement, sample (depth 4) - a resolution remembered from the first sample must not survive
            # the second announcement
            imgs = [i for i, it in enumerate(ITEMS) if it[0] in ('img', 'launch')]
            samps = [i for i, it in enumerate(ITEMS) if it[0] in ('samp', 'samp-mixed') and it[1] >= 4 and len(it[2]) >= 4] + \
                    [i for i, it in enumerate(ITEMS) if it[0] == 'samp-tid2']
            for s1 in samps:
                for i2 in imgs:
                    for s2 in samps:
                        seq = (desc[1], s1, i2, s2)
                        bad = judge(seq, 'layers')
                        acc.case(nontrivial=True, transitions=sum(len(events_of(ITEMS[i])) for i in seq), outcome=None)
                        if bad:
                            acc.violation(bad[0], {'kind': 'hist', 'seq': list(seq), 'via': 'layers', 'readable': [str(ITEMS[i][:3]) for i in seq]}, bad[1])
        else:
            for sig, detail in judge_same_tick_recursion():
                acc.violation(sig, {'kind': 'same-tick'}, detail)
            acc.case(nontrivial=True, transitions=40, state=h64('same-tick'))
            sets = []
            pool = [(a, 0) for a in ADDR] + [(0x2800, 1)]
            for n in range(1, 5):
                sets += list(itertools.combinations(pool, n))
            for s in sets:
                results = set()
                for perm in itertools.permutations(range(len(s))):
                    r = judge_permutation(s, perm, 0)
                    results.add(repr(r))
                    acc.case(nontrivial=len(s) >= 2, transitions=len(s) + 6, state=h64(('perm', s)))
                if len(results) != 1:
                    acc.violation('attribution-depends-on-announcement-order', {'kind': 'perm', 'set': [list(x) for x in s]}, {'distinct_results': len(results)})

    def replay(self, case):
        if case['kind'] == 'deep':
            from mc.run import Acc
            acc = Acc()
            self.run_shard(('deep', case['k']), acc)
            return [(sig, v['cases'][0][1]) for sig, v in acc.violations.items()]
        if case['kind'] == 'same-tick':
            return judge_same_tick_recursion()
        if case['kind'] == 'hist':
            bad = judge(tuple(case['seq']), case['via'])
            return [bad] if bad else []
        s = [tuple(x) for x in case['set']]
        results = {repr(judge_permutation(s, perm, 0)) for perm in itertools.permutations(range(len(s)))}
        return [('attribution-depends-on-announcement-order', {'distinct_results': len(results)})] if len(results) != 1 else []


if __name__ == '__main__':
    main(C15)
