"""C06 — truncated dumps: parsing terminates and reports a prefix of the full result.

Crash-point enumeration: every truncation offset 0..len of every base dump x every consumer, through a CountingReader with
a read budget and a watchdog; plus every output-count limit on every complete dump."""
import io
import itertools
import signal

from mc.run import Check, main, h64
from mc import build as B
from mc import ev as E
from mc.space import chunked
from pykdebugparser.kd_buf_parser import KdBufParser
from pykdebugparser.pykdebugparser import PyKdebugParser
from pykdebugparser.os_log_event import OsLogEvent


class BudgetExceeded(BaseException):
    pass


class Watchdog(BaseException):
    pass


class CountingReader(io.BytesIO):
    def __init__(self, data):
        super().__init__(data)
        self.calls = 0
        self.bytes = 0
        self.budget = 16 * len(data) + 4096
        self.tripped = False

    def read(self, n=-1):
        self.calls += 1
        if self.calls > self.budget:
            self.tripped = True
            raise BudgetExceeded()
        r = super().read(n)
        self.bytes += len(r)
        if self.bytes > self.budget:
            # the amount of READING (bytes handed out, however few calls) is bounded by the same linear budget
            self.tripped = True
            raise BudgetExceeded()
        return r


def _alarm(signum, frame):
    raise Watchdog()


def R(name, q, args=(0, 0, 0, 0), tid=1, ts=1, data=None):
    return B.rec(ts, args, tid, E.n2i(name) | q, data=data)


def syscall_records():
    """records that decode into several traces: open(path) with a 2-record lookup, getpid, a NONE mach trace."""
    look = B.lookup_chunks(0x77, '/some/where/a-long-path-name/file.txt')
    recs = [R('BSC_open', 1, (0x1000, 0, 0o644, 0), tid=1, ts=10)]
    for i, (d, q) in enumerate(look):
        recs.append(R('VFS_LOOKUP', q, tid=1, ts=11 + i, data=d))
    recs.append(R('BSC_open', 2, (0, 3, 0, 0), tid=1, ts=20))
    recs.append(R('BSC_getpid', 1, tid=2, ts=21))
    recs.append(R('MACH_vm_page_release', 0, tid=2, ts=22))
    recs.append(R('BSC_getpid', 2, (0, 44, 0, 0), tid=2, ts=23))
    recs.append(R('TRACE_DATA_THREAD_TERMINATE', 0, (2, 0, 0, 0), tid=2, ts=24))
    return recs


def base_dumps():
    """name -> (blob, [record (start,end) ranges])"""
    out = {}
    plain = [B.rec(i + 1, (i, 2, 3, 4), 9, 0x040c000d) for i in range(3)]

    def v2d(threads, pad, recs):
        blob = B.v2(threads, pad, recs)
        start, offs, total = B.v2_layout(threads, pad, recs)
        return blob, [(o, o + 64) for o in offs]
    out['v2-bare'] = v2d([], 0, plain[:2])
    out['v2-map-pad'] = v2d([(1, 10, 'procA'), (2, 20, 'procB')], 64, plain)
    out['v2-syscalls'] = v2d([(1, 10, 'procA'), (2, 20, 'procB')], 0, syscall_records())
    # traces whose process column a LATER record changes (exec renames pid 10; a new-thread record declares tid 3)
    ren = [R('BSC_getpid', 1, tid=1, ts=30), R('BSC_getpid', 2, (0, 10, 0, 0), tid=1, ts=31), R('BSC_getpid', 1, tid=3, ts=32),
           R('BSC_getpid', 2, (0, 10, 0, 0), tid=3, ts=33), R('TRACE_DATA_EXEC', 0, (10, 0, 0, 0), tid=1, ts=34),
           R('TRACE_STRING_EXEC', 0, tid=1, ts=35, data=b'renamed'.ljust(32, b'\0')), R('TRACE_DATA_NEWTHREAD', 0, (3, 20, 0, 0), tid=2, ts=36),
           R('BSC_getpid', 1, tid=3, ts=37), R('BSC_getpid', 2, (0, 20, 0, 0), tid=3, ts=38)]
    # ... and another process carries the new name from the start (thread 2 of pid 20), with a trace of its own before the rename
    ren = ren[:2] + [R('BSC_getpid', 1, tid=2, ts=31), R('BSC_getpid', 2, (0, 20, 0, 0), tid=2, ts=31)] + ren[2:]
    out['v2-rename'] = v2d([(1, 10, 'procA'), (2, 20, 'renamed')], 0, ren)

    # 20 records whose timestamps are NOT in file order (per-CPU buffers are merged without sorting): a listing is in file order
    stamps = [50, 3, 40, 7, 7, 90, 1, 60, 2, 80, 5, 70, 4, 30, 6, 20, 8, 10, 9, 100]
    unordered = [B.rec(ts, (i, 2, 3, 4), 9, 0x040c000d) for i, ts in enumerate(stamps)]
    out['v2-unordered'] = v2d([(9, 10, 'procA')], 0, unordered)

    # windows of one thread that overlap without nesting (a fault whose END never arrives starts inside a read), then more records
    ov = [R('BSC_read', 1, (3, 0x7000, 64, 0), tid=1, ts=80), R('MACH_vmfault', 1, (0x1000, 1, 0, 0), tid=1, ts=81), R('BSC_read', 2, (0, 63, 0, 0), tid=1, ts=82),
          R('MACH_vm_page_release', 0, tid=1, ts=83), R('BSC_getpid', 1, tid=1, ts=84), R('BSC_getpid', 2, (0, 44, 0, 0), tid=1, ts=85),
          R('MACH_vm_page_release', 0, tid=1, ts=86), R('BSC_getpid', 1, tid=1, ts=87), R('BSC_getpid', 2, (0, 44, 0, 0), tid=1, ts=88)]
    out['v2-overlap'] = v2d([(1, 10, 'procA')], 0, ov)
    # three user-stack samples with an image announced between them (callstack consumers)
    def sample(ts, words):
        return [R('PERF_Event', 1, (8, 1, 0, 0), tid=1, ts=ts), R('PERF_STK_UHdr', 0, (1, len(words), 0, 0), tid=1, ts=ts + 1),
                R('PERF_STK_UData', 0, tuple(words) + (0,) * (4 - len(words)), tid=1, ts=ts + 2), R('PERF_Event', 2, (8, 0, 0, 0), tid=1, ts=ts + 3)]
    samples = sample(40, (0x1010, 0x2020)) + [R('DYLD_uuid_map_a', 0, tid=1, ts=50, data=bytes(range(1, 17)) + B.le(0x1000, 8) + B.le(1, 8))] + \
        sample(60, (0x1014, 0x999, 0x2024)) + sample(70, (0x1018,))
    out['v2-samples'] = v2d([(1, 10, 'procA')], 0, samples)

    def v3d(**kw):
        blob, parts = B.v3_sections(**kw)
        return blob, [(s, e) for (n, s, e) in parts if n.startswith('rec')]
    strings = {'hello': 1, 'proc': 2}
    logs = B.v3_block(B.TAG_LOG_EVENTS, B.bplist({'Events': [
        {'cm': 1, 't': 'logEvent', 's': 1, 'tid': 5, 'ns': 5, 'mct': 6, 'b': b'B' * 16, 'piu': b'P' * 16,
         'ud': {'sec': 1600000000, 'usec': 1}, 'utz': {'mw': 0, 'dt': 0}, 'p': 2, 'pid': 9}]}))
    sidx = B.v3_block(B.TAG_LOG_STRINGS, B.bplist({'StringIndex': strings}))
    codes = B.v3_block(B.TAG_TRACE_CODES, b'0x1 A\n')
    out['v3-1chunk'] = v3d(threads=[(1, 10, 'procA')], chunks=[plain[:2]])
    out['v3-2chunks'] = v3d(threads=[(1, 10, 'procA'), (2, 20, 'procB')], chunks=[plain[:1], plain[1:]], filler1=b'')
    out['v3-empty-chunk'] = v3d(threads=[(1, 10, 'procA')], chunks=[plain[:1], [], plain[1:]], gap=b'gap!gap!')
    out['v3-meta'] = v3d(threads=[(1, 10, 'procA')], chunks=[plain[:2]], blocks=[codes, sidx, logs],
                         filler1=B.STACKSHOT_END[:5], filler2=B.TAG_THREADMAP[:3])
    out['v3-syscalls'] = v3d(threads=[(1, 10, 'procA'), (2, 20, 'procB')], chunks=[syscall_records()[:4], syscall_records()[4:]],
                             blocks=[codes])
    out['v3-unordered'] = v3d(threads=[(9, 10, 'procA')], chunks=[unordered[:9], unordered[9:]])
    # records whose argument words spell container tags (events tag + a plausible length, more-events tag, thread-map tag): a reader
    # that re-synchronises after a short read must not take them for structure
    tagw = [B.rec(300 + i, w, 9, 0x040c000d) for i, w in enumerate([(0x1e00, 128, 0x1e00, 64), (0x2000, 0, 0x1d00, 32), (0x1e00, 64, 1, 2), (7, 0x1e00, 192, 0x1e00),
                                                                     (0x1e00, 128, 3, 4), (5, 6, 7, 8), (0x1e00, 64, 0x1e00, 64), (9, 9, 9, 9)])]
    out['v3-tag-words-in-records'] = v3d(threads=[(9, 10, 'procA')], chunks=[tagw[:5], tagw[5:]])
    # sections of a few kilobytes behind the events (a reader that retries from every word of a cut section reads quadratically)
    big_codes = B.v3_block(B.TAG_TRACE_CODES, b''.join(b'0x%x NAME_%d\n' % (0x1000 + i, i) for i in range(110)))
    big_procs = B.v3_block(B.TAG_PROCESSES, B.bplist({'Processes': [{'n': 'p%d' % i, 'v': i} for i in range(60)]}))
    out['v3-big-sections'] = v3d(threads=[(1, 10, 'procA')], chunks=[plain[:2]], blocks=[big_codes, big_procs, sidx])
    # the stackshot is arbitrary binary data: here it holds a well-formed thread-map chunk and a well-formed events chunk (one write()
    # call) IN FRONT of its end marker; nothing of it is ever reported, also when the dump is cut inside it
    ghost = [R('BSC_write', 1, (7, 0x7777, 119, 0), tid=4, ts=1), R('BSC_write', 2, (0, 119, 0, 0), tid=4, ts=2)]
    fake = b'ab' + B.TAG_THREADMAP + B.le(32, 8) + B.threadmap_entries([(4, 44, 'ghost')]) + B.TAG_EVENTS + B.le(64 * 2 + 8, 8) + b'\0' * 8 + b''.join(ghost) + b'\0' * 40
    out['v3-stackshot-holds-chunks'] = v3d(threads=[(1, 10, 'procA')], chunks=[plain[:2]], filler1=fake)
    # both ends of a real capture: the END of a call that began before it, and a START of the same call on the same thread that is still
    # open when it stops
    ends = [R('BSC_read', 2, (0, 64, 0, 0), tid=1, ts=40), R('BSC_getpid', 1, tid=1, ts=41), R('BSC_getpid', 2, (0, 10, 0, 0), tid=1, ts=42),
            R('BSC_read', 1, (9, 0x7900, 153, 0), tid=1, ts=43), R('BSC_getpid', 1, tid=1, ts=44), R('BSC_getpid', 2, (0, 10, 0, 0), tid=1, ts=45)]
    out['v2-orphan-end-and-unfinished-start'] = v2d([(1, 10, 'procA')], 0, ends)
    # a dump without a thread map whose stream declares a thread AFTER that thread's first line
    nomap = [R('BSC_getpid', 1, tid=3, ts=30), R('BSC_getpid', 2, (0, 10, 0, 0), tid=3, ts=31), R('TRACE_DATA_NEWTHREAD', 0, (3, 20, 0, 0), tid=2, ts=32),
             R('TRACE_STRING_NEWTHREAD', 0, tid=2, ts=33, data=b'gamma'.ljust(32, b'\0')), R('BSC_getpid', 1, tid=3, ts=34), R('BSC_getpid', 2, (0, 20, 0, 0), tid=3, ts=35)]
    out['v2-nomap-declares'] = v2d([], 0, nomap)
    # a recorder that flushes often: 80 events chunks of one record each (the amount of READING stays linear in the length)
    out['v3-many-chunks'] = v3d(threads=[(1, 10, 'procA')], chunks=[[B.rec(500 + i, (i, 2, 3, 4), 9, 0x040c000d)] for i in range(80)], blocks=[codes])
    out['v3-nochunks-meta'] = v3d(threads=[], chunks=[[]], blocks=[codes], with8=False)
    return out


_DUMPS = None
_TC = None


def dumps():
    global _DUMPS
    if _DUMPS is None:
        _DUMPS = base_dumps()
    return _DUMPS


def tc():
    global _TC
    if _TC is None:
        _TC = dict(E.codes())
    return _TC


CONSUMERS = ['parse', 'kevents', 'traces', 'formatted_kevents', 'formatted_traces']
FILTERED_CONSUMERS = ['formatted_traces --process renamed', 'formatted_traces --process procA', 'formatted_traces --tid 3']
STACK_CONSUMERS = ['callstacks', 'formatted_callstacks']


def obs(x):
    if isinstance(x, OsLogEvent):
        return ('log', x.composed_message, x.thread_identifier)
    if isinstance(x, str):
        return x
    if hasattr(x, 'ktraces'):
        return ('trace', type(x).__name__, str(x), tuple((e.timestamp, e.debugid, e.tid) for e in x.ktraces))
    if hasattr(x, 'frames'):
        return ('callstack', x.timestamp, x.tid, repr(x.frames))
    return ('ev', x.timestamp, x.data, tuple(x.values), x.tid, x.debugid, x.eventid, x.func_qualifier)


def consume(blob, consumer, limit=None, facade=None):
    """returns (items, how_stopped, reader, late_changes); facade: a PyKdebugParser object to use instead of a new one"""
    reader = CountingReader(blob)
    items = []
    live = []
    how = 'end'
    signal.signal(signal.SIGALRM, _alarm)
    signal.setitimer(signal.ITIMER_REAL, 20.0)
    try:
        if consumer == 'parse':
            gen = KdBufParser({}, {}).parse(reader)
        else:
            f = facade if facade is not None else PyKdebugParser()
            if consumer == 'kevents':
                gen = f.kevents(reader)
            elif consumer == 'traces':
                gen = f.traces(reader, tc())
            elif consumer == 'formatted_kevents':
                gen = f.formatted_kevents(reader, tc())
            elif consumer.startswith('formatted_traces --'):
                opt, val = consumer.split(' ')[1:]
                if opt == '--process':
                    f.filter_process = val
                else:
                    f.filter_tid = int(val)
                gen = f.formatted_traces(reader, tc())
            elif consumer == 'callstacks':
                gen = f.callstacks(reader, tc())
            elif consumer == 'formatted_callstacks':
                gen = f.formatted_callstacks(reader, tc())
            else:
                gen = f.formatted_traces(reader, tc())
        if limit is not None:
            gen = itertools.islice(gen, limit)
        for x in gen:
            items.append(obs(x))
            live.append(x)
    except BudgetExceeded:
        how = 'budget'
    except Watchdog:
        how = 'watchdog'
    except Exception as ex:
        how = 'raised:' + type(ex).__name__
    finally:
        signal.setitimer(signal.ITIMER_REAL, 0)
    late = [i for i, (a, x) in enumerate(zip(items, live)) if obs(x) != a]
    return items, how, reader, late


def only_events(items):
    return [x for x in items if not (isinstance(x, tuple) and x and x[0] == 'log')]


_FULL = {}


def full(name, consumer):
    k = (name, consumer)
    if k not in _FULL:
        blob, _ = dumps()[name]
        items, how, reader, late = consume(blob, consumer)
        _FULL[k] = (items, how)
    return _FULL[k]


def judge_cut(name, consumer, cut):
    blob, recs = dumps()[name]
    fitems, fhow = full(name, consumer)
    bad = []
    if fhow != 'end':
        bad.append(('complete-dump-does-not-parse:' + fhow, {}))
        return bad, 0
    items, how, reader, late = consume(blob[:cut], consumer)
    if how in ('budget', 'watchdog'):
        where = 'v3' if name.startswith('v3') else 'v2'
        bad.append((f'no-termination-on-truncated-{where}-dump', {'how': how, 'read_calls': reader.calls, 'len': cut}))
        return bad, len(items)
    if reader.bytes > 16 * cut + 4096:
        bad.append(('superlinear-reading', {'bytes': reader.bytes, 'len': cut}))
    got = only_events(items)
    exp = only_events(fitems)
    if got != exp[:len(got)]:
        bad.append(('truncated-output-not-a-prefix:' + consumer, {'got_n': len(got), 'first_diff': next(
            (i for i, (a, b) in enumerate(zip(got, exp)) if a != b), min(len(got), len(exp)))}))
    if consumer in ('parse', 'kevents', 'formatted_kevents'):
        complete = sum(1 for (s, e) in recs if e <= cut)
        if len(got) > complete:
            bad.append(('event-fabricated-from-partial-record', {'got_n': len(got), 'complete_records': complete}))
    if late:
        bad.append(('reported-item-changed-later', {'indices': late}))
    if 'nomap' in name and consumer.startswith('formatted') and not bad:
        # the object that has already listed the COMPLETE dump lists the truncated one: still a prefix of the complete listing
        f = PyKdebugParser()
        consume(blob, consumer, facade=f)
        items2, how2, _, _ = consume(blob[:cut], consumer, facade=f)
        got2 = only_events(items2)
        if how2 not in ('budget', 'watchdog') and got2 != exp[:len(got2)]:
            bad.append(('truncated-output-not-a-prefix:' + consumer + ':object-that-listed-the-complete-dump-before', {'got_n': len(got2), 'first_diff': next(
                (i for i, (a, b) in enumerate(zip(got2, exp)) if a != b), min(len(got2), len(exp)))}))
    return bad, len(items)


def judge_cli_limit(name, consumer, c):
    """the command-line tool's own count limiter (pykdebugparser.__main__.print_with_count) on the formatted listings:
    count c >= 0 prints exactly the first c lines; the default -1 prints all."""
    import contextlib
    from pykdebugparser.__main__ import print_with_count
    blob, recs = dumps()[name]
    f = PyKdebugParser()
    fitems, fhow = full(name, consumer)
    if fhow != 'end':
        return [('complete-dump-does-not-parse:' + fhow, {})]
    reader = CountingReader(blob)
    gen = f.formatted_kevents(reader, tc()) if consumer == 'formatted_kevents' else f.formatted_traces(reader, tc())
    buf = io.StringIO()
    signal.signal(signal.SIGALRM, _alarm)
    signal.setitimer(signal.ITIMER_REAL, 20.0)
    try:
        with contextlib.redirect_stdout(buf):
            print_with_count(gen, c)
    except (BudgetExceeded, Watchdog):
        return [('no-termination-on-complete-dump:command-line', {'limit': c, 'read_calls': reader.calls})]
    except Exception as ex:
        return [('cli-count-limited-run-failed:' + type(ex).__name__, {'limit': c})]
    finally:
        signal.setitimer(signal.ITIMER_REAL, 0)
    got = buf.getvalue().split('\n')[:-1] if buf.getvalue() else []
    exp = list(fitems) if c < 0 else list(fitems[:c])
    exp_lines = [l for x in exp for l in str(x).split('\n')]
    if got != exp_lines:
        return [('cli-count-limit-changes-lines', {'limit': c, 'printed': len(got), 'expected': len(exp_lines)})]
    return []


def judge_cli_cut(name, consumer, cut):
    """the command-line tool's printing loop on a TRUNCATED dump: whatever reaches standard output before it stops (normally or
    with an error) is a prefix of what the complete dump prints there."""
    import contextlib
    from pykdebugparser.__main__ import print_with_count
    blob, recs = dumps()[name]
    fitems, fhow = full(name, consumer)
    exp_lines = [l for x in fitems for l in str(x).split('\n')]
    f = PyKdebugParser()
    reader = CountingReader(blob[:cut])
    buf = io.StringIO()
    signal.signal(signal.SIGALRM, _alarm)
    signal.setitimer(signal.ITIMER_REAL, 20.0)
    try:
        with contextlib.redirect_stdout(buf):
            gen = f.formatted_kevents(reader, tc()) if consumer == 'formatted_kevents' else f.formatted_traces(reader, tc())
            print_with_count(gen, -1)
    except (BudgetExceeded, Watchdog):
        return [('no-termination-on-truncated-dump:command-line', {'cut': cut})]
    except BaseException:
        pass
    finally:
        signal.setitimer(signal.ITIMER_REAL, 0)
    got = buf.getvalue().split('\n')[:-1] if buf.getvalue() else []
    if got != exp_lines[:len(got)]:
        return [('truncated-output-not-a-prefix:command-line-stdout', {'cut': cut, 'printed': got[-1:], 'n': len(got)})]
    return []


def judge_limit(name, consumer, c):
    blob, recs = dumps()[name]
    fitems, fhow = full(name, consumer)
    items, how, reader, late = consume(blob, consumer, limit=c)
    bad = []
    if how != 'end':
        bad.append(('count-limited-run-failed:' + how, {}))
    elif items != fitems[:c]:
        bad.append(('count-limit-changes-lines', {'limit': c, 'got_n': len(items)}))
    if late:
        bad.append(('reported-item-changed-later', {'indices': late}))
    return bad


class C06(Check):
    pid = 'C06'
    level = 'fault_enumeration'
    rule = ('crash points: every truncation offset 0..len of each base dump (4 version-2, 6 version-3; thorough adds nothing '
            'to the offsets - they are already all enumerated - but runs every consumer on every dump) x consumers '
            '{KdBufParser.parse, kevents, traces, formatted_kevents, formatted_traces} through a CountingReader (budget '
            '16*len+4096 read calls, 20 s watchdog); plus every count limit c in 0..N+1 via islice on every complete dump, and every limit -1..N+1 through the command-line tool\'s own print_with_count. '
            'For the two formatted listings every cut is also run through the printing loop of the command-line tool: its standard output is a prefix of the complete run. Oracle: stops before the budget; items reported are a prefix of the complete dump\'s (events only for v3); no '
            'more events than complete records before the cut; reported items do not change afterwards; islice(c) == '
            'first c of the full listing. Distinct by construction; non-trivial = the cut falls strictly inside a record '
            'or inside the header/sections (not at a record boundary or at len).')
    assumptions = ('base dumps are those of checks/c06.py:base_dumps (0.4-1.7 kB each; two of them hold 20 records whose timestamps are not in file order; one holds three user-stack samples and an image announcement and is read through callstacks / formatted_callstacks)',
                   'the prefix claim does not demand progress: how many items were reported is recorded, not judged')

    def consumers(self, name):
        if 'samples' in name:
            return STACK_CONSUMERS + ['traces', 'formatted_traces']
        if 'rename' in name:
            return CONSUMERS + FILTERED_CONSUMERS
        if 'nomap' in name or 'orphan' in name:
            return CONSUMERS
        if 'overlap' in name:
            return ['traces', 'formatted_traces']
        if self.tier == 'quick':
            if 'syscalls' in name or 'rename' in name:
                return CONSUMERS
            return ['parse', 'kevents', 'formatted_kevents']
        return CONSUMERS

    def bounds(self):
        return {'dumps': {n: len(b) for n, (b, _) in dumps().items()}}

    def shards(self):
        out = []
        for name, (blob, _) in dumps().items():
            for c in self.consumers(name):
                for ch in chunked(range(len(blob) + 1), 4 if 'many-chunks' not in name else 424):
                    out.append(('cut', name, c, ch[0], ch[-1] + 1))
                out.append(('limit', name, c))
        return out

    def run_shard(self, desc, acc):
        if desc[0] == 'cut':
            _, name, consumer, lo, hi = desc
            blob, recs = dumps()[name]
            boundaries = {s for s, e in recs} | {e for s, e in recs} | {len(blob)}
            for cut in range(lo, hi):
                if 'many-chunks' in name and not (cut % 53 == 0 or cut > len(blob) - 9):
                    continue       # this dump is 8 KB: every 53rd cut and the last eight
                bad, n = judge_cut(name, consumer, cut)
                if consumer in ('formatted_kevents', 'formatted_traces'):
                    bad = bad + judge_cli_cut(name, consumer, cut)
                acc.case(nontrivial=cut not in boundaries, transitions=n + 1, outcome=h64((name, consumer, n)))
                if n:
                    acc.count('cuts_reporting_items')
                for sig, detail in bad:
                    acc.violation(sig, {'kind': 'cut', 'dump': name, 'consumer': consumer, 'cut': cut,
                                        'hex': blob[:cut].hex()}, detail)
                if not bad and acc.want_sample() and cut not in boundaries and n:
                    acc.sample({'dump': name, 'consumer': consumer, 'cut_offset': cut, 'len': len(blob), 'items_reported': n})
        else:
            _, name, consumer = desc
            fitems, _ = full(name, consumer)
            if consumer in ('formatted_kevents', 'formatted_traces'):
                for c in range(-1, len(fitems) + 2):
                    for sig, detail in judge_cli_limit(name, consumer, c):
                        acc.violation(sig, {'kind': 'cli-limit', 'dump': name, 'consumer': consumer, 'limit': c}, detail)
                    acc.case(nontrivial=0 <= c <= len(fitems), transitions=max(c, 0) + 1, outcome=h64((name, consumer, 'cli', c)))
            for c in range(len(fitems) + 2):
                bad = judge_limit(name, consumer, c)
                acc.case(nontrivial=0 < c <= len(fitems), transitions=c + 1, outcome=h64((name, consumer, 'limit', c)))
                for sig, detail in bad:
                    acc.violation(sig, {'kind': 'limit', 'dump': name, 'consumer': consumer, 'limit': c}, detail)

    def replay(self, case):
        if case['kind'] == 'cut':
            return judge_cut(case['dump'], case['consumer'], case['cut'])[0] + \
                (judge_cli_cut(case['dump'], case['consumer'], case['cut']) if case['consumer'] in ('formatted_kevents', 'formatted_traces') else [])
        if case['kind'] == 'cli-limit':
            return judge_cli_limit(case['dump'], case['consumer'], case['limit'])
        return judge_limit(case['dump'], case['consumer'], case['limit'])


if __name__ == '__main__':
    main(C06)
