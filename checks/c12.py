"""C12 — event filters select exactly the matching subsequence.

All event streams of <=d records over tids x event ids, in v2 and v3 containers (v3 adds log records), x all filter
configurations (tid x class lists x subclass lists x process) through PyKdebugParser.kevents / os_log_events."""
import io
import itertools

from mc.run import Check, main, h64
from mc import build as B
from mc.ref import ref_decode
from mc.space import seqs, chunked
from pykdebugparser.pykdebugparser import PyKdebugParser
from pykdebugparser.os_log_event import OsLogEvent

BIG = (1 << 32) + 1          # shares its low 32 bits with tid 1
TIDS = [0, 1, 2, BIG]
EVENTIDS = [0x040c0004, 0x040d0004, 0x03010090, 0x07010004, 0x01400000, 0xff000000, 0]
SYMS = [(t, e) for t in TIDS for e in EVENTIDS]
CLASSES = [1, 3, 4, 7, 0xff]
SUBCLASSES = [0x40c, 0x40d, 0x301, 0x140]
STR = {'msg': 1, 'A': 2, 'B': 3, 'AB': 4, '10': 5, 'com.apple.WebKit.Networking': 6}    # one process name contains another; so does one pid's decimal form (100 / 10)
LOGS = [  # (tid, pid, process-name index or None)
    (1, 10, 2), (2, 20, 3), (1, 100, 4), (0, 10, None), (2, 31, 5), ((1 << 32) + 1, 10, 6),     # index 4: a process NAMED '10' whose pid is 31; index 5: a 27-character name
]


def class_lists():
    out = [[]]
    for n in (1, 2):
        for c in itertools.product(CLASSES, repeat=n):
            out.append(list(c))
    out.append((4,))
    out.append((1, 7))
    return out


def subclass_lists():
    out = [[]]
    for n in (1, 2):
        for c in itertools.product(SUBCLASSES, repeat=n):
            out.append(list(c))
    out.append((0x40c,))
    return out


TID_FILTERS = [None, 0, 1, 2, 9, BIG]
PROC_FILTERS = [None, 'A', '10', 'zzz', '20', '010', 'com.apple.WebKit']     # '010' is nobody's name and nobody's pid text


def raw_log(i, tid, pid, name):
    e = {'cm': 1, 't': 'logEvent', 's': i, 'tid': tid, 'ns': 5, 'mct': 6 + i, 'b': b'B' * 16, 'piu': b'P' * 16,
         'ud': {'sec': 1600000000 + i, 'usec': 0}, 'utz': {'mw': 0, 'dt': 0}, 'pid': pid}
    if name is not None:
        e['p'] = name
    if i % 2:
        e['lc'] = {'c': 3, 's': 1}         # a LOSS record of the log section (messages dropped): a log record like any other
    return e


def mkrec(i, sym, q):
    t, eid = sym
    return B.rec(100 + i, (i, 0, 0, 0), t, eid | q)


def container(kind, stream, logs):
    recs = [mkrec(i, SYMS[s], (i + s) % 4) for i, s in enumerate(stream)]
    if kind == 'v2':
        return B.v2([(1, 10, 'A')], 0, recs), recs
    blocks = []
    if logs:
        blocks.append(B.v3_block(B.TAG_LOG_STRINGS, B.bplist({'StringIndex': STR})))
        blocks.append(B.v3_block(B.TAG_LOG_EVENTS, B.bplist({'Events': [raw_log(i, *LOGS[l]) for i, l in enumerate(logs)]})))
    return B.v3([(1, 10, 'A')], [recs], blocks), recs


def obs_event(e):
    return (e.timestamp, e.data, tuple(e.values), e.tid, e.debugid, e.eventid, e.func_qualifier)


def run_facade(blob, T, C, S, P, api):
    f = PyKdebugParser()
    f.filter_tid = T
    f.filter_class = C
    f.filter_subclass = S
    f.filter_process = P
    return list(getattr(f, api)(io.BytesIO(blob)))


def judge(kind, stream, logs, T, C, S, P):
    blob, recs = container(kind, stream, logs)
    bad = []
    try:
        got = run_facade(blob, T, C, S, P, 'kevents')
    except Exception as ex:
        return [('kevents-raised:' + type(ex).__name__, {'err': repr(ex)})]
    if any(isinstance(x, OsLogEvent) or not hasattr(x, 'debugid') for x in got):
        bad.append(('log-in-event-listing', {'types': sorted({type(x).__name__ for x in got})}))
        got = [x for x in got if not isinstance(x, OsLogEvent) and hasattr(x, 'debugid')]
    exp = []
    for r in recs:
        d = ref_decode(r)
        tid, eid = d[3], d[5]
        if T is not None and tid != T:
            continue
        if (len(C) or len(S)) and not ((eid >> 24) in list(C) or (eid >> 16) in list(S)):
            continue
        exp.append(d)
    if [obs_event(e) for e in got] != exp:
        bad.append(('event-filter-wrong-subsequence', {'got_n': len(got), 'exp_n': len(exp)}))
    if kind == 'v2' and not (len(C) or len(S)):
        try:
            gl2 = run_facade(blob, T, C, S, P, 'os_log_events')
        except Exception as ex:
            return bad + [('os_log_events-raised:' + type(ex).__name__, {'err': repr(ex)[:200], 'container': 'v2'})]
        if gl2:
            bad.append(('event-in-log-listing', {'container': 'v2', 'n': len(gl2)}))
    if kind == 'v3':
        try:
            gl = run_facade(blob, T, C, S, P, 'os_log_events')
        except Exception as ex:
            return bad + [('os_log_events-raised:' + type(ex).__name__, {'err': repr(ex)})]
        if any(hasattr(x, 'debugid') for x in gl):
            bad.append(('event-in-log-listing', {}))
            gl = [x for x in gl if not hasattr(x, 'debugid')]
        rev = {v: k for k, v in STR.items()}
        el = []
        for i, l in enumerate(logs):
            tid, pid, name = LOGS[l]
            pname = rev[name] if name is not None else ''
            if T is not None and tid != T:
                continue
            if P is not None and P not in (pname, str(pid)):
                continue
            el.append((i, tid, pid, pname))
        # the PRINTED log listing under the filters = the lines the unfiltered printed listing gives for the same records
        try:
            f0 = PyKdebugParser()
            f0.color = False
            all_lines = list(f0.formatted_logs(io.BytesIO(blob)))
            f1 = PyKdebugParser()
            f1.color = False
            f1.filter_tid, f1.filter_process = T, P
            got_lines = list(f1.formatted_logs(io.BytesIO(blob)))
            if len(all_lines) == len(logs) and got_lines != [all_lines[i] for i, _, _, _ in el]:
                bad.append(('printed-log-lines-under-filter-differ-from-unfiltered-lines', {'got': got_lines[:3], 'expected': [all_lines[i] for i, _, _, _ in el][:3]}))
        except Exception as ex:
            bad.append(('formatted_logs-raised:' + type(ex).__name__, {'err': repr(ex)[:200]}))
        if [(getattr(x, 'size', None), getattr(x, 'thread_identifier', None), getattr(x, 'process_identifier', None), getattr(x, 'process', None)) for x in gl] != el:
            bad.append(('log-filter-wrong-subsequence', {'got': [(getattr(x, 'size', None), getattr(x, 'thread_identifier', None)) for x in gl], 'exp': el}))
    return bad


RECONF = [(None, [], []), (1, [], []), (None, [4], []), (None, [], [0x40c]), (2, [3, 7], [0x40d]), (None, (1,), (0x140,)), (None, [0xff], [0x301])]


def judge_reconfigure(stream, cfgs, first_traces):
    """one PyKdebugParser object, its filters re-set (or, first_traces == 'inplace', its two filter lists edited in place) between requests: every kevents() listing must equal the listing of a
    fresh object with that configuration (a verdict cached from an earlier configuration must not survive)."""
    blob, recs = container('v2', stream, ())
    f = PyKdebugParser()
    f.color = False
    if first_traces is True:
        f.filter_tid, f.filter_class, f.filter_subclass = cfgs[0]
        list(f.traces(io.BytesIO(blob)))
    own_c, own_s = [], []
    if first_traces == 'inplace':
        # the caller keeps ONE class list and ONE subclass list on the object and edits them in place between requests
        f.filter_class, f.filter_subclass = own_c, own_s
    for step, (T, C, S) in enumerate(cfgs):
        if first_traces == 'inplace':
            f.filter_tid = T
            own_c[:] = list(C)
            own_s[:] = list(S)
        else:
            f.filter_tid, f.filter_class, f.filter_subclass = T, C, S
        try:
            if first_traces == 'lazy':
                # the listing is requested, then (the caller's settings untouched) other requests run to their end on the same
                # object, and only then is the listing read
                g = f.kevents(io.BytesIO(blob))
                list(f.traces(io.BytesIO(blob)))
                list(f.callstacks(io.BytesIO(blob)))
                got = [obs_event(e) for e in g]
            else:
                got = [obs_event(e) for e in f.kevents(io.BytesIO(blob))]
        except Exception as ex:
            return ('kevents-raised-after-reconfiguration:' + type(ex).__name__, {'step': step, 'error': repr(ex)[:200]})
        exp = []
        for r in recs:
            d = ref_decode(r)
            if T is not None and d[3] != T:
                continue
            if (len(C) or len(S)) and not ((d[5] >> 24) in list(C) or (d[5] >> 16) in list(S)):
                continue
            exp.append(d)
        if got != exp:
            return ('event-filter-depends-on-earlier-requests', {'step': step, 'got_n': len(got), 'exp_n': len(exp),
                                                                'configs': repr(cfgs), 'traces_first': first_traces})
    return None


class C12(Check):
    pid = 'C12'
    level = 'model_checking'
    rule = ('all record streams of length <=2 (quick, tids {1, 2^32+1}) / <=3 (thorough, tids {0,1,2,2^32+1}) over tids x 7 event ids (qualifier bits varied by '
            'position) in a v2 container, and of length <=1/<=2 in a v3 container together with all sequences of <=2 log '
            'records over 5 (tid,pid,process) shapes; x filter configurations: filter_tid in {None,0,1,2,9} x filter_class in '
            'all lists of <=2 over {1,3,4,7,0xff} (duplicates, tuple type) x filter_subclass in all lists of <=2 over '
            '{0x40c,0x40d,0x301,0x140} (v2: full product for the tid/class/subclass filters on streams of <=2 records, lists of <=1 entries plus 6 two-entry / tuple-typed ones on streams of 3; v3: class/subclass reduced to 6x4, '
            'process filter in {None,name,pid-string,other}). Plus the command-line tool (kevents --tid/-cf/-sf in decimal and 0x form; logs --tid/--process) against the same reference. Plus request histories: all sequences of 3 filter configurations (7 kinds) applied in turn to ONE parser object, optionally after a traces() request, or with every listing requested first and read only after a traces() and a callstacks() request ran to their end on the same object, or with the object keeping ONE class list and ONE subclass list that the caller edits in place between the requests, on 3 streams - each listing must equal the reference for its own configuration. Oracle: listing == reference comprehension over the independent '
            'decode; logs never among events and vice versa. non-trivial = the event filter removes at least one and keeps at least '
            'one record. states = distinct filter configurations; transitions = parses.')
    assumptions = ('configuration x history product is complete within the stated alphabets',)

    def bounds(self):
        return {'v2_stream_len': 2 if self.tier == 'quick' else 3, 'symbols': len(SYMS),
                'class_lists': len(class_lists()), 'subclass_lists': len(subclass_lists())}

    def shards(self):
        L = 2 if self.tier == 'quick' else 3
        pool = [i for i, (t, e) in enumerate(SYMS) if t not in (0, 2)] if self.tier == 'quick' else range(len(SYMS))
        streams = list(seqs(pool, L))
        out = [('v2', ch) for ch in chunked(streams, 96 if self.tier == 'thorough' else 32)]
        L3 = 1 if self.tier == 'quick' else 2
        streams3 = list(seqs(pool, L3))
        out += [('v3', ch, part) for ch in chunked(streams3, 32) for part in range(8)]
        out += [('reconf', i) for i in range(len(RECONF))]
        out.append(('long',))
        out.append(('cli',))
        out.append(('collide',))
        return out

    def run_reconf(self, first, acc):
        streams = [(0, 7, 9, 14, 16, 19), tuple(range(0, 21, 2)), (3, 3, 10, 17, 22, 27)]
        for stream in streams:
            for rest in itertools.product(range(len(RECONF)), repeat=2):
                cfgs = [RECONF[first]] + [RECONF[i] for i in rest]
                for first_traces in (False, True, 'lazy', 'inplace'):
                    bad = judge_reconfigure(stream, cfgs, first_traces)
                    acc.case(nontrivial=True, transitions=len(cfgs) + (3 * len(cfgs) if first_traces == 'lazy' else int(first_traces is True)), state=h64(repr(cfgs[-1])))
                    if bad:
                        acc.violation(bad[0], {'kind': 'reconf', 'stream': list(stream), 'cfgs': [[c[0], list(c[1]), list(c[2])] for c in cfgs],
                                               'types': [[type(c[1]).__name__, type(c[2]).__name__] for c in cfgs],
                                               'first_traces': first_traces}, bad[1])

    def run_long(self, acc):
        stream = tuple((i * 7 + i // 5) % len(SYMS) for i in range(700))
        for T, C, S in [(None, [], []), (1, [], []), (None, [4], []), (BIG, [3, 7], [0x40d]), (None, [], [0x40c, 0x140]), (2, (1,), ())]:
            bad = judge('v2', stream, (), T, C, S, None)
            acc.case(nontrivial=True, transitions=1, state=h64((T, repr(C), repr(S), 'long')))
            for sig, detail in bad:
                acc.violation(sig + ':700-record-stream', {'kind': 'v2', 'stream': list(stream), 'logs': [], 'tid': T, 'classes': list(C),
                                                         'classes_type': type(C).__name__, 'subclasses': list(S),
                                                         'subclasses_type': type(S).__name__, 'process': None}, detail)

    def run_cli(self, acc):
        """the command-line tool: `kevents --tid T -cf C.. -sf S..` and `logs --tid T --process P` must list exactly what the
        reference filter keeps (the options must reach the right filters, in decimal and in 0x form)."""
        from mc.cli import run_cli
        streams = [(0, 7, 9, 14, 16, 19, 22, 27), (3, 10, 17, 24)]
        for stream in streams:
            blob, recs = container('v2', stream, ())
            for T in (None, 1, 2, BIG):
                for C in ([], [4], [3, 7], [1, 1]):
                    for S in ([], [0x40c], [0x301, 0x140]):
                        for hexform in (False, True):
                            args = ['kevents']
                            if T is not None:
                                args += ['--tid', str(T)]
                            for c in C:
                                args += ['-cf', hex(c) if hexform else str(c)]
                            for x in S:
                                args += ['-sf', hex(x) if hexform else str(x)]
                            code, lines, exc = run_cli(blob, args)
                            exp = []
                            for r in recs:
                                d = ref_decode(r)
                                if T is not None and d[3] != T:
                                    continue
                                if (C or S) and not ((d[5] >> 24) in C or (d[5] >> 16) in S):
                                    continue
                                exp.append(d)
                            acc.case(nontrivial=bool(T or C or S), transitions=1, state=h64(('cli', T, tuple(C), tuple(S))))
                            case = {'kind': 'cli', 'args': args, 'stream': list(stream)}
                            if code != 0 or exc is not None:
                                acc.violation('cli-kevents-failed', case, {'exit': code, 'error': repr(exc)[:200]})
                            elif len(lines) != len(exp) or any(not l.startswith(str(d[0]) + ' ') for l, d in zip(lines, exp)):
                                acc.violation('cli-event-filter-wrong-subsequence', case, {'got_n': len(lines), 'exp_n': len(exp)})
        # logs
        for logs in ((0, 1), (2, 3, 5), (4,)):
            blob, recs = container('v3', (0, 9), logs)
            rev = {v: k for k, v in STR.items()}
            for T in (None, 1, 2, BIG):
                for P in (None, 'A', '10', 'zzz', '010', '31', 'com.apple.WebKit', 'com.apple.WebKit.Networking'):
                    args = ['logs'] + (['--tid', str(T)] if T is not None else []) + (['--process', P] if P is not None else [])
                    code, lines, exc = run_cli(blob, args)
                    el = []
                    for i, l in enumerate(logs):
                        tid, pid, name = LOGS[l]
                        pname = rev[name] if name is not None else ''
                        if (T is None or tid == T) and (P is None or P in (pname, str(pid))):
                            el.append(i)
                    acc.case(nontrivial=True, transitions=1, state=h64(('cli-logs', T, P)))
                    if code != 0 or exc is not None or len(lines) != len(el):
                        acc.violation('cli-log-filter-wrong-subsequence', {'kind': 'cli', 'args': args, 'logs': list(logs)},
                                      {'exit': code, 'error': repr(exc)[:200], 'got_n': len(lines), 'exp_n': len(el)})

    def run_collide(self, acc):
        """(a) class numbers and subclass numbers live in different fields: a subclass filter below 0x100 (class 0) or a class
        entry above 0xff must not match through the other field; (b) growing ONE object's filter list in place must not
        change another object's listing."""
        # ... (c) subclass entries of DIFFERENT classes must not be crossed (class of one with the low byte of the other)
        ids = [0x00040004, 0x04000004, 0x040c0004, 0x00000004, 0x0c040004, 0x04040404, 0x01090004, 0x04090004, 0x010c0004, 0x03010004, 0x030c0004, 0x04010004,
               0x04ff0004, 0x0400fffc, 0x01ff0004, 0xffff0004, 0x04fffffc,      # the last subclass of a class (0x..ff), the last code
               0x0400fffd, 0x040cfffe, 0x04ffffff, 0xffffffff, 0x00000003]      # the last code of a subclass / class with the START, END, ALL qualifier
        recs = [B.rec(100 + i, (i, 0, 0, 0), 1, e) for i, e in enumerate(ids)]
        blob = B.v2([(1, 10, 'A')], 0, recs)
        for C in ([], [4], [0], [0x40c], [0x404], [4, 0x40c], [0xff], [1, 4], [-1], [-252], [-257, 4], [1, 2, 3, 5, 6, 7, 8, 9, 10], list(range(5, 40))):
            for S in ([], [4], [0x400], [0x40c], [0], [0x404], [0x40c, 0x109], [0x109, 0x40c], [0x301, 0x40c], [0x40c, 0x40c, 0x301], [0x401, 0x30c], [0x4ff], [0xffff, 0x1ff], [-1], [-0xfbf4], [-0x10001],
                      list(range(0x0401, 0x040d)), [1, 4, 0x109] + list(range(0x0300, 0x0310))):        # long lists: every subclass of a class; small values that are also class numbers
                try:
                    got = [obs_event(e) for e in run_facade(blob, None, C, S, None, 'kevents')]
                except Exception as ex:
                    got = [('RAISED',) * 5 + (0,) + (type(ex).__name__,)]
                exp = [ref_decode(r) for r in recs if not (C or S) or (ref_decode(r)[5] >> 24) in C or (ref_decode(r)[5] >> 16) in S]
                acc.case(nontrivial=bool(C or S), transitions=1, state=h64(('collide', tuple(C), tuple(S))))
                if got != exp:
                    acc.violation('event-filter-wrong-subsequence:class-subclass-number-collision', {'kind': 'collide', 'classes': C, 'subclasses': S},
                                  {'got': [hex(g[5]) for g in got], 'expected': [hex(x[5]) for x in exp]})
                # the same lists kept in other containers (set, frozenset, the keys of a dict, a range where the values are consecutive)
                if len(C) <= 2 and len(S) <= 2:
                    for wrap in (set, frozenset, lambda x: dict.fromkeys(x).keys(), lambda x: range(x[0], x[0] + 1) if len(x) == 1 else range(0)):
                        if wrap(C or [0]).__class__ is range and len(C) > 1 or wrap(S or [0]).__class__ is range and len(S) > 1:
                            continue
                        try:
                            got2 = [obs_event(e) for e in run_facade(blob, None, wrap(C), wrap(S), None, 'kevents')]
                        except Exception as ex:
                            got2 = [('RAISED',) * 5 + (0,) + (type(ex).__name__,)]
                        acc.case(nontrivial=bool(C or S), transitions=1, state=h64(('collide-container', tuple(C), tuple(S))))
                        if got2 != exp:
                            acc.violation('event-filter-wrong-subsequence:filter-kept-in-another-container', {'kind': 'collide', 'classes': C, 'subclasses': S, 'container': type(wrap(C)).__name__},
                                          {'got': [hex(g[5]) for g in got2], 'expected': [hex(x[5]) for x in exp]})
                            break
        # the FORMATTED event listing: the lines of a filtered listing are the lines the unfiltered listing gives for the same events
        # (a stream in which a thread declares another one: the declaration is itself an event a filter may remove)
        ids2 = [(1, 0x07000004, (9, 55, 0, 0)), (9, 0x040c0050 | 1, (0, 0, 0, 0)), (1, 0x07010004, None), (9, 0x040c0050 | 2, (0, 5, 0, 0)), (1, 0x01400000, (1, 2, 3, 4))]
        recs2 = [B.rec(200 + i, a if a is not None else (0, 0, 0, 0), t, e, data=(b'kid'.ljust(32, b'\0') if a is None else None)) for i, (t, e, a) in enumerate(ids2)]
        blob2 = B.v2([(1, 10, 'A')], 0, recs2)
        full = PyKdebugParser()
        full_lines = list(full.formatted_kevents(io.BytesIO(blob2)))
        for T in (None, 1, 9):
            for C in ([], [4], [7], [1, 4]):
                for S in ([], [0x40c], [0x700], [0x701]):
                    f = PyKdebugParser()
                    f.filter_tid, f.filter_class, f.filter_subclass = T, C, S
                    try:
                        got = list(f.formatted_kevents(io.BytesIO(blob2)))
                    except Exception as ex:
                        got = 'RAISED ' + type(ex).__name__
                    exp = [l for l, (t, e, a) in zip(full_lines, ids2) if (T is None or t == T) and (not (C or S) or (e >> 24) in C or (e >> 16) in S)]
                    acc.case(nontrivial=True, transitions=2, state=h64(('fmt', T, tuple(C), tuple(S))))
                    if got != exp:
                        acc.violation('formatted-event-lines-differ-from-unfiltered-lines', {'kind': 'collide', 'tid': T, 'classes': C, 'subclasses': S},
                                      {'got': got if isinstance(got, str) else got[:2], 'expected': exp[:2]})
        for grow in ('class-append', 'subclass-append', 'class-iadd'):
            a, b = PyKdebugParser(), PyKdebugParser()
            if grow == 'class-append':
                a.filter_class.append(0xff)
            elif grow == 'subclass-append':
                a.filter_subclass.append(0xffff)
            else:
                a.filter_class += [0xfe]
            got = [obs_event(e) for e in b.kevents(io.BytesIO(blob))]
            acc.case(nontrivial=True, transitions=1, state=h64(('grow', grow)))
            if got != [ref_decode(r) for r in recs] or b.filter_class != [] or b.filter_subclass != []:
                acc.violation('filter-settings-shared-between-parser-objects', {'kind': 'collide', 'grow': grow},
                              {'other_object_filter_class': repr(b.filter_class), 'got_n': len(got)})

    def run_shard(self, desc, acc):
        if desc[0] == 'collide':
            return self.run_collide(acc)
        if desc[0] == 'cli':
            return self.run_cli(acc)
        if desc[0] == 'long':
            return self.run_long(acc)
        if desc[0] == 'reconf':
            return self.run_reconf(desc[1], acc)
        kind, streams = desc[0], desc[1]
        CL, SL = class_lists(), subclass_lists()
        if kind == 'v2':
            # streams of length 3 meet the lists of <=1 entries plus the tuple-typed / two-entry specials; shorter ones the full product
            CLr = [c for c in CL if len(c) <= 1] + [(4,), (1, 7), [4, 4], [7, 4]]
            SLr = [x for x in SL if len(x) <= 1] + [(0x40c,), [0x40c, 0x301]]
            for stream in streams:
                for T in TID_FILTERS:
                    for C in (CL if len(stream) < 3 else CLr):
                        for S in (SL if len(stream) < 3 else SLr):
                            self._one(acc, 'v2', stream, (), T, C, S, None)
        else:
            CL3 = [[], [4], [7, 3], (1,), [0xff, 4], [3]]
            SL3 = [[], [0x40c], [0x301, 0x140], (0x40d,)]
            logseqs = [l for i, l in enumerate(seqs(range(len(LOGS)), 2)) if i % 8 == desc[2]]
            for stream in streams:
                for logs in logseqs:
                    if self.tier == 'quick' and stream and len(logs) > 1:
                        continue      # quick: two-record log sequences only with an empty event stream
                    if len(stream) >= 2 and len(logs) > 1:
                        continue      # thorough: two-record log sequences with event streams of <=1 record
                    for T in TID_FILTERS:
                        for P in PROC_FILTERS:
                            for C in CL3:
                                for S in SL3:
                                    self._one(acc, 'v3', stream, logs, T, C, S, P)

    def _one(self, acc, kind, stream, logs, T, C, S, P):
        bad = judge(kind, stream, logs, T, C, S, P)
        n = len(stream) + len(logs)
        kept = sum(1 for s in stream if (T is None or SYMS[s][0] == T) and (
            not (len(C) or len(S)) or (SYMS[s][1] >> 24) in C or (SYMS[s][1] >> 16) in S))
        acc.case(nontrivial=0 < kept < len(stream), transitions=1 + (kind == 'v3'),
                 state=h64((T, repr(C), repr(S), P)), outcome=None)
        case = {'kind': kind, 'stream': list(stream), 'logs': list(logs), 'tid': T, 'classes': list(C),
                'classes_type': type(C).__name__, 'subclasses': list(S), 'subclasses_type': type(S).__name__, 'process': P}
        for sig, detail in bad:
            acc.violation(sig, case, detail)
        if not bad and acc.want_sample() and n >= 2 and len(C) and T is not None:
            acc.sample(case)

    def replay(self, case):
        if case['kind'] == 'collide':
            from mc.run import Acc
            acc = Acc()
            self.run_collide(acc)
            return [(sig, v['cases'][0][1]) for sig, v in acc.violations.items()]
        if case['kind'] == 'cli':
            from mc.run import Acc
            acc = Acc()
            self.run_cli(acc)
            return [(sig, v['cases'][0][1]) for sig, v in acc.violations.items()]
        if case['kind'] == 'reconf':
            cfgs = [(c[0], tuple(c[1]) if t[0] == 'tuple' else list(c[1]), tuple(c[2]) if t[1] == 'tuple' else list(c[2]))
                    for c, t in zip(case['cfgs'], case['types'])]
            bad = judge_reconfigure(tuple(case['stream']), cfgs, case['first_traces'])
            return [bad] if bad else []
        C = tuple(case['classes']) if case['classes_type'] == 'tuple' else list(case['classes'])
        S = tuple(case['subclasses']) if case['subclasses_type'] == 'tuple' else list(case['subclasses'])
        return judge(case['kind'], tuple(case['stream']), tuple(case['logs']), case['tid'], C, S, case['process'])


if __name__ == '__main__':
    main(C12)
