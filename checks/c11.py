"""C11 — flag words and packed fields decode to exactly the names of the bits set.

For each symbolic family every subset of the declared bits plus two undeclared bits (or a Hamming ball when that is too
many for the quick tier), every value of each multi-bit field; for ioctl every value of each 16-bit half of the request
word. Names are read from str(trace) of a decoder that shows the family; values are Darwin's (mc/darwin.py)."""
import itertools
import re

from mc.run import Check, main, h64
from mc import ev as E
from mc import domains as D
from mc import darwin as DW
from mc.space import chunked
from pykdebugparser.traces_parser import TracesParser

M64 = (1 << 64) - 1

# family -> (decoder, shape, word index, shift, field mask, name regex, Darwin table, frozen enum, zero name)
FAMILIES = {
    'MSG': ('BSC_recvfrom', 'se', 3, 0, M64, r'\bMSG_[A-Z0-9_]+\b', DW.MSG, 'bsd.SocketMsgFlags', None),
    'LOCK': ('BSC_sys_flock', 'se', 1, 0, M64, r'\bLOCK_[A-Z]+\b', DW.LOCK, 'bsd.FlockOperation', None),
    'CHFLAGS': ('BSC_chflags', 'se', 1, 0, M64, r'\b[US]F_[A-Z]+\b', DW.CHFLAGS, 'bsd.BscChangeableFlags', None),
    'FCHFLAGS': ('BSC_fchflags', 'se', 1, 0, M64, r'\b[US]F_[A-Z]+\b', DW.CHFLAGS, 'bsd.BscChangeableFlags', None),
    'ACCESS': ('BSC_access', 'se', 1, 0, M64, r'\b[FXWR]_OK\b', DW.ACCESS, 'bsd.BscAccessFlags', 'F_OK'),
    'VM_PROT': ('RealFaultAddressInternal', 'single', 1, 8, 0xff, r'\bVM_PROT_[A-Z_]+\b', DW.VM_PROT, 'mach.VmProtection', 'VM_PROT_NONE'),
    'AST': ('MACH_SCHED', 'single', 0, 0, M64, r'\bAST_[A-Z_]+\b', DW.AST, 'mach.AsynchronousSystemTrapsReason', 'AST_NONE'),
    'AST@block': ('MACH_BLOCK', 'single', 0, 0, M64, r'\bAST_[A-Z_]+\b', DW.AST, 'mach.AsynchronousSystemTrapsReason', 'AST_NONE'),
    'AST@dispatch': ('MACH_DISPATCH', 'single', 1, 0, M64, r'\bAST_[A-Z_]+\b', DW.AST, 'mach.AsynchronousSystemTrapsReason', 'AST_NONE'),
    'TH': ('MACH_DISPATCH', 'single', 2, 0, M64, r'\bTH_[A-Z0-9_]+\b', DW.TH, 'mach.ThreadState', None),
    'SAMPLER': ('PERF_Event', 'single', 0, 0, M64, r'\bSAMPLER_[A-Z_]+\b', DW.SAMPLER, 'perf.SamplerAction', None),
    'KPERF_TI': ('PERF_THD_Data', 'single', 3, 0, 0xffff, r'\bKPERF_TI_[A-Z]+\b', DW.KPERF_TI, 'perf.KperfTiState', None),
    'CALLSTACK': ('PERF_STK_UHdr', 'single', 0, 0, M64, r'\bCALLSTACK_[A-Z0-9_]+\b', DW.CALLSTACK, 'perf.CallstackFlag', None),
    'RTLD': ('DBG_DYLD_TIMING_DLOPEN', 'se', 2, 0, M64, r'\bRTLD_[A-Z]+\b', DW.RTLD, 'dyld.RtldFlag', None),
    'MSG@nocancel': ('BSC_recvfrom_nocancel', 'se', 3, 0, M64, r'\bMSG_[A-Z0-9_]+\b', DW.MSG, 'bsd.SocketMsgFlags', None),
    'ACCESS@faccessat': ('BSC_faccessat', 'se', 2, 0, M64, r'\b[FXWR]_OK\b', DW.ACCESS, 'bsd.BscAccessFlags', 'F_OK'),
    'AST@idle': ('MACH_IDLE', 'single', 3, 0, M64, r'\bAST_[A-Z_]+\b', DW.AST, 'mach.AsynchronousSystemTrapsReason', 'AST_NONE'),
    'VM_PROT@external': ('RealFaultAddressExternal', 'single', 1, 8, 0xff, r'\bVM_PROT_[A-Z_]+\b', DW.VM_PROT, 'mach.VmProtection', 'VM_PROT_NONE'),
    'VM_PROT@sharedcache': ('RealFaultAddressSharedCache', 'single', 1, 8, 0xff, r'\bVM_PROT_[A-Z_]+\b', DW.VM_PROT, 'mach.VmProtection', 'VM_PROT_NONE'),
}
OPEN_SITES = {'OPEN': ('BSC_open', 1), 'OPEN@openat': ('BSC_openat', 2), 'OPEN@nocancel': ('BSC_open_nocancel', 1)}
STAT_SITES = {'STAT': ('BSC_chmod', 1), 'STAT@fchmod': ('BSC_fchmod', 1), 'STAT@mkdir': ('BSC_mkdir', 1)}
# every further (decoder, word) at which a family is shown, from the frozen site table mc/flagsites.json (tools/gen_flagsites.py):
# these get the Hamming balls of radius 2 around no-bits and all-bits instead of every subset
OPEN_SITES_2 = {'OPEN@openat_nocancel': ('BSC_openat_nocancel', 2), 'OPEN@open_dprotected_np': ('BSC_open_dprotected_np', 1),
                'OPEN@guarded_open_np': ('BSC_guarded_open_np', 3), 'OPEN@guarded_open_dprotected_np': ('BSC_guarded_open_dprotected_np', 3),
                'OPEN@openbyid_np': ('BSC_openbyid_np', 2), 'OPEN@sem_open': ('BSC_sem_open', 1), 'OPEN@shm_open': ('BSC_shm_open', 1)}
STAT_SITES_2 = {'STAT@fchmodat': ('BSC_fchmodat', 2), 'STAT@mkdirat': ('BSC_mkdirat', 2), 'STAT@mkfifo': ('BSC_mkfifo', 1),
                'STAT@sem_open': ('BSC_sem_open', 2), 'STAT@shm_open': ('BSC_shm_open', 2)}
OPEN_SITES.update(OPEN_SITES_2)
STAT_SITES.update(STAT_SITES_2)
NEEDS_CREAT = {'BSC_sem_open': 1, 'BSC_shm_open': 1}     # the mode is shown only when this word has O_CREAT
BASE_S = (0x1111, 0x2222, 0x3333, 0x4444)
BASE_E = (0, 0x55, 0x66, 0x77)


class NamesShownForARecordThatIsNoCall(Exception):
    pass


def render(decoder, shape, s, e=BASE_E):
    p = TracesParser(E.codes(), {}, {})
    if shape == 'se':
        # the call is preceded by the END record of a call whose START fell before the capture; its words are the complement of
        # the judged START words, so any name it contributes is a name of a bit NOT set in the judged word
        evs = [E.ev(decoder, 2, tuple(~x & M64 for x in s)), E.ev(decoder, 1, s), E.ev(decoder, 2, e)]
    else:
        evs = [E.ev(decoder, 0, s)]
    out = [t for t in p.feed_generator(E.restamp(evs)) if t.ktraces[0].eventid == evs[0].eventid]
    if len(out) != 1:
        raise NamesShownForARecordThatIsNoCall(f'{len(out)} traces for one call: ' + ' | '.join(E.stable_str(t) for t in out)[:200])
    return E.stable_str(out[-1])


def declared(qualname):
    return D.frozen_enum(qualname)


def bit_subsets(bits, quick_ball=None):
    """every subset of `bits` (as OR-ed word); or, when quick_ball=r, the Hamming balls of radius r around 0 and all."""
    if quick_ball is None:
        for r in range(len(bits) + 1):
            for c in itertools.combinations(bits, r):
                w = 0
                for b in c:
                    w |= b
                yield w
    else:
        allw = 0
        for b in bits:
            allw |= b
        for r in range(quick_ball + 1):
            for c in itertools.combinations(bits, r):
                w = 0
                for b in c:
                    w |= b
                yield w
                yield allw ^ w


def family_bits(fam):
    decoder, shape, idx, shift, mask, rx, table, enumq, zero = FAMILIES[fam]
    dec = declared(enumq)
    bits = sorted({table[n] for n in dec if n in table and table[n]})
    used = 0
    for b in bits:
        used |= b
    undeclared = []
    for cand in [1 << i for i in range(0, 62)]:
        if not (cand & used) and (cand & mask):
            undeclared.append(cand)
            if len(undeclared) == 2:
                break
    return bits, undeclared


def judge_family(fam, w):
    decoder, shape, idx, shift, mask, rx, table, enumq, zero = FAMILIES[fam]
    s = list(D.in_domain(decoder, shape, BASE_S, BASE_E, 1)[0])
    field = w & mask
    s[idx] = (s[idx] & ~(mask << shift) | (field << shift)) & M64 if mask != M64 else field
    try:
        txt = render(decoder, shape, tuple(s))
    except Exception as ex:
        return ('raised:' + type(ex).__name__, {'error': repr(ex)[:200]})
    shown = set(re.findall(rx, txt))
    dec = declared(enumq)
    for n in shown:
        if n not in table:
            return ('name-not-a-darwin-constant', {'name': n, 'text': txt})
        v = table[n]
        if v == 0:
            if any(table.get(d, 0) & field for d in dec):
                return ('zero-name-shown-with-declared-bits-set', {'name': n, 'word': hex(field), 'text': txt})
        elif not (v & field):
            return ('name-shown-for-bit-not-set', {'name': n, 'word': hex(field), 'text': txt})
    for n in dec:
        if n not in table:
            return ('declared-name-unknown-to-darwin-table', {'name': n})
        v = table[n]
        if v and (v & field) == v and n not in shown:
            return ('declared-set-bit-not-shown', {'name': n, 'word': hex(field), 'text': txt})
    if zero and field == 0 and zero not in shown:
        return ('zero-value-name-missing', {'text': txt})
    return None


def judge_sample_callstack(w, shape):
    nframes = 0 if shape == 'no-frames' else 2
    evs = [E.ev('PERF_Event', 1, (0x8, 7, 0, 0)), E.ev('PERF_STK_UHdr', 0, (w, nframes, 0, 0))]
    if shape == 'frames':
        evs.append(E.ev('PERF_STK_UData', 0, (0x10, 0x20, 0, 0)))
    # the END record of a sample carries words of its own (the idle-thread word among them): not the callstack state word
    evs.append(E.ev('PERF_Event', 2, (0, 0, 0, 0) if w % 2 else (0x8, 1, 7, 9)))
    try:
        out = [t for t in TracesParser(E.codes(), {}, {}).feed_generator(E.restamp(evs)) if type(t).__name__ == 'PerfEvent' and t.ktraces[0].func_qualifier == 1]
        if len(out) != 1:
            return ('sample-count', {'n': len(out)})
        flags = out[0].cs_flags
        if flags is None:
            shown = None
        else:
            shown = {getattr(f, 'name', str(f)) for f in flags}
    except Exception as ex:
        return ('raised:' + type(ex).__name__, {'error': repr(ex)[:200]})
    table = DW.CALLSTACK
    dec = declared('perf.CallstackFlag')
    want = {n for n in dec if n in table and table[n] and (table[n] & w) == table[n]}
    if shown is None:
        if want:
            return ('declared-set-bit-not-shown', {'word': hex(w), 'sample_cs_flags': None, 'expected': sorted(want)})
        return None
    for n in shown - want:
        return ('name-shown-for-bit-not-set' if n in table else 'name-not-a-darwin-constant', {'name': n, 'word': hex(w)})
    for n in want - shown:
        return ('declared-set-bit-not-shown', {'name': n, 'word': hex(w), 'shown': sorted(shown)})
    return None


def judge_sample_thread_state(w, about):
    evs = [E.ev('PERF_Event', 1, (0x1, 7, 0, 0)), E.ev('PERF_THD_Data', 0, (55, about, 0x66, w)), E.ev('PERF_Event', 2, (0, 0, 0, 0) if w % 2 else (0x1, 1, 7, 9))]
    try:
        out = [t for t in TracesParser(E.codes(), {}, {}).feed_generator(E.restamp(evs)) if type(t).__name__ == 'PerfEvent' and t.ktraces[0].func_qualifier == 1]
        if len(out) != 1:
            return ('sample-count', {'n': len(out)})
        info = out[0].th_info
        shown = None if info is None else set(re.findall(r'\bKPERF_TI_[A-Z]+\b', E.stable_str(info) + ' ' + repr(info)))
    except Exception as ex:
        return ('raised:' + type(ex).__name__, {'error': repr(ex)[:200]})
    table = DW.KPERF_TI
    dec = declared('perf.KperfTiState')
    want = {n for n in dec if n in table and table[n] and (table[n] & w & 0xffff) == table[n]}
    if shown is None:
        return ('declared-set-bit-not-shown', {'word': hex(w), 'sample_thread_info': None, 'expected': sorted(want)}) if want else None
    for n in shown - want:
        return ('name-shown-for-bit-not-set' if n in table else 'name-not-a-darwin-constant', {'name': n, 'word': hex(w)})
    for n in want - shown:
        return ('declared-set-bit-not-shown', {'name': n, 'word': hex(w), 'shown': sorted(shown)})
    return None


def judge_open(site, w):
    decoder, idx = OPEN_SITES[site]
    s = list(BASE_S)
    s[idx] = w
    if decoder == 'BSC_openat':
        s[3] = 0o644
    try:
        txt = render(decoder, 'se', tuple(s))
    except Exception as ex:
        return ('raised:' + type(ex).__name__, {'error': repr(ex)[:200]})
    shown = re.findall(r'\bO_[A-Z_]+\b', txt)
    acc = [n for n in shown if n in ('O_RDONLY', 'O_WRONLY', 'O_RDWR', 'O_ACCMODE')]
    mode = w & 3
    if mode in DW.O_ACCMODE_NAMES:
        if acc != [DW.O_ACCMODE_NAMES[mode]]:
            return ('access-mode-name-wrong', {'mode': mode, 'shown': acc, 'text': txt})
    else:
        if 'O_RDONLY' in acc or not acc:
            return ('access-mode-name-wrong', {'mode': mode, 'shown': acc, 'text': txt})
    dec = declared('bsd.BscOpenFlags')
    for n in shown:
        if n in acc:
            continue
        if n not in DW.OPEN_FLAGS:
            return ('name-not-a-darwin-constant', {'name': n, 'text': txt})
        if not (DW.OPEN_FLAGS[n] & w):
            return ('name-shown-for-bit-not-set', {'name': n, 'word': hex(w), 'text': txt})
    for n in dec:
        if n in ('O_RDONLY', 'O_WRONLY', 'O_RDWR', 'O_ACCMODE'):
            continue
        if n not in DW.OPEN_FLAGS:
            return ('declared-name-unknown-to-darwin-table', {'name': n})
        if (DW.OPEN_FLAGS[n] & w) and n not in shown:
            return ('declared-set-bit-not-shown', {'name': n, 'word': hex(w), 'text': txt})
    return None


def judge_stat(site, w):
    decoder, idx = STAT_SITES[site]
    s = list(BASE_S)
    s[idx] = w
    if decoder in NEEDS_CREAT:
        s[NEEDS_CREAT[decoder]] = 0x200
    try:
        txt = render(decoder, 'se', tuple(s))
    except Exception as ex:
        return ('raised:' + type(ex).__name__, {'error': repr(ex)[:200]})
    shown = set(re.findall(r'\bS_I[A-Z]+\b', txt))
    dec = declared('bsd.StatFlags')
    ftype = w & DW.S_IFMT
    for n in shown:
        if n in DW.FILE_TYPES:
            if DW.FILE_TYPES[n] != ftype:
                return ('file-type-name-wrong', {'name': n, 'type_field': oct(ftype), 'text': txt})
        elif n in DW.MODE_BITS:
            if not (DW.MODE_BITS[n] & w):
                return ('name-shown-for-bit-not-set', {'name': n, 'word': oct(w), 'text': txt})
        else:
            return ('name-not-a-darwin-constant', {'name': n, 'text': txt})
    for n in dec:
        if n in DW.FILE_TYPES:
            if DW.FILE_TYPES[n] == ftype and n not in shown:
                return ('file-type-name-missing', {'name': n, 'type_field': oct(ftype), 'text': txt})
        elif n in DW.MODE_BITS:
            if (DW.MODE_BITS[n] & w) and n not in shown:
                return ('declared-set-bit-not-shown', {'name': n, 'word': oct(w), 'text': txt})
        else:
            return ('declared-name-unknown-to-darwin-table', {'name': n})
    return None


IOC_DIRS = {DW.IOC_VOID: {'IOC_VOID'}, DW.IOC_OUT: {'IOC_OUT'}, DW.IOC_IN: {'IOC_IN'}, DW.IOC_INOUT: {'IOC_IN', 'IOC_OUT'}}


def judge_ioctl(w):
    d = w & DW.IOC_DIRMASK
    try:
        txt = render('BSC_ioctl', 'se', (3, w, 5, 0))
    except Exception as ex:
        if d in IOC_DIRS:
            return ('ioctl-raised:' + type(ex).__name__, {'word': hex(w), 'error': repr(ex)[:100]})
        return None
    if d not in IOC_DIRS:
        return None
    i = txt.find('_IOC(')
    j = txt.rfind(')', 0, txt.rfind('*/'))
    if i < 0 or j < 0:
        return ('ioctl-fields-not-shown', {'text': txt})
    inner = txt[i + 5:j]
    try:
        head, num, length = inner.rsplit(', ', 2)
        group = head[-2]
        dirs = set(re.findall(r'IOC_[A-Z]+', head[:-5]))
        num, length = int(num), int(length)
    except Exception:
        return ('ioctl-fields-not-parsable', {'text': txt})
    exp = (IOC_DIRS[d], chr((w >> 8) & 0xff), w & 0xff, (w >> 16) & DW.IOCPARM_MASK)
    if (dirs, group, num, length) != exp:
        return ('ioctl-fields-not-inverse-of-IOC', {'word': hex(w), 'shown': repr((sorted(dirs), group, num, length)),
                                                    'expected': repr((sorted(exp[0]), exp[1], exp[2], exp[3]))})
    if DW._IOC(d, ord(group), num, length) != w & 0xffffffff:
        return ('ioctl-fields-not-inverse-of-IOC', {'word': hex(w)})
    return None


class C11(Check):
    pid = 'C11'
    level = 'exploration'
    rule = ('per symbolic family, through a decoder that shows it: every subset of the declared bits plus two undeclared bits (the callstack family also as the state word of the SAMPLE that owns the header, header announcing 0 frames / 2 frames / 2 frames whose data was lost; the thread-state family also as the thread info of the SAMPLE whose window holds the record, about the logging thread / another thread / thread 0) '
            '(MSG_ and AST_: Hamming balls of radius 3 around 0 and around all-bits in quick, the full 2^22 / 2^24 in thorough); '
            'open flags (3 call sites; 7 further sites from the frozen site table with Hamming balls of radius 2): every subset of 12 flag bits + 2 access-mode bits + 2 undeclared; file modes (3 call '
            'sites; 5 further sites likewise): every subset of the 12 permission bits x all 16 values of the S_IFMT field x 1 undeclared bit; packed fields '
            '(VM_PROT byte: all 256 values, also as shown by page-fault traces in pairs of windows; KPERF_TI 16-bit field); ioctl: all 2^16 values of the high half x 4 low halves and of '
            'the low half x 8 high halves. Every START/END call is preceded by the END record of a call whose START fell before the capture, carrying the complement of the judged words: it must print nothing. Oracle: shown names subset of Darwin names whose value intersects the word; every '
            'declared name (frozen enum names) whose Darwin bit is set is shown; multi-bit fields show exactly Darwin\'s name for '
            'the value; ioctl fields invert _IOC. Distinct by construction; non-trivial = at least two declared bits set (or, for '
            'ioctl, a word in the image of _IOC).')
    assumptions = ('Darwin values: mc/darwin.py transcription (trusted base)', 'declared names: frozen copy of the enums at the pinned commit',
                   'leniency: access-mode value 3 (O_ACCMODE, a mask) and undefined S_IFMT values (incl. obsolete S_IFWHT) are not '
                   'demanded; a zero-valued name (F_OK, AST_NONE, VM_PROT_NONE) may be shown whenever no declared bit is set (the pinned tree itself prints F_OK for access(path, 0x8); the statement speaks of names of SET bits only)',
                   'not all 2^32 ioctl words: the four fields are extracted by independent mask/shift pairs and every value of '
                   'every field and field boundary is covered by the two half-word sweeps')

    def bounds(self):
        return {'families': sorted(FAMILIES) + sorted(OPEN_SITES) + sorted(STAT_SITES) + ['IOCTL']}

    def shards(self):
        out = []
        for fam in FAMILIES:
            bits, und = family_bits(fam)
            allbits = bits + und
            if len(allbits) > 18 and self.tier == 'quick':
                out.append(('fam', fam, 'ball', 0, 1))
            elif len(allbits) > 18:
                n = 64
                for i in range(n):
                    out.append(('fam', fam, 'full', i, n))
            else:
                out.append(('fam', fam, 'full', 0, 1))
        for site in OPEN_SITES:
            for i in range(4):
                out.append(('open', site, i))
        for site in STAT_SITES:
            for t in range(16):
                out.append(('stat', site, t))
        out.append(('vmprot-pairs',))
        out.append(('sample-callstack',))
        out.append(('sample-thread-state',))
        for k in range(4):
            out.append(('ioctl', 'hi', k))
        for k in range(8):
            out.append(('ioctl', 'lo', k))
        return out

    def run_shard(self, desc, acc):
        kind = desc[0]
        if kind == 'fam':
            _, fam, mode, part, nparts = desc
            bits, und = family_bits(fam)
            allbits = bits + und
            if mode == 'ball':
                words = sorted(set(bit_subsets(allbits, 3)))
            elif nparts == 1:
                words = bit_subsets(allbits)
            else:
                # partition by the subset of the 6 lowest bits
                low, high = allbits[:6], allbits[6:]
                lw = list(bit_subsets(low))[part]
                words = (lw | hw for hw in bit_subsets(high))
            declared_mask = 0
            for b in bits:
                declared_mask |= b
            for w in words:
                bad = judge_family(fam, w)
                acc.case(nontrivial=bin(w & declared_mask).count('1') >= 2, transitions=1, outcome=h64((fam, w)) if w < 4096 else None)
                if bad:
                    acc.violation(f'{bad[0]}@{fam}', {'kind': 'fam', 'family': fam, 'word': hex(w)}, bad[1])
                elif acc.want_sample() and bin(w).count('1') == 3:
                    acc.sample({'family': fam, 'word': hex(w)})
        elif kind == 'vmprot-pairs':
            # protection names shown by a page-fault trace come from ITS OWN window: a fault whose window carries no protection
            # word (no nested record / an undecoded one) after a fault that had one, on the same thread and parser
            for p1 in range(256):
                for second in ((), ('RealFaultAddressPurgeable',)):
                  # the nested record of the first fault is of each kind the tool decodes (every 8th value for the two rarer kinds)
                  for first_kind in (('RealFaultAddressInternal', 'RealFaultAddressExternal', 'RealFaultAddressSharedCache') if p1 % 8 == 7 or p1 < 8 else ('RealFaultAddressInternal',)):
                    # every other value: unrelated records of the thread logged between the nested record and the fault's END
                    between = [E.ev('MACH_WAIT', 0, (0x10, 0, 0, 0)), E.ev('MACH_vm_page_release', 0, (1, 2, 3, 4))] if p1 % 2 else []
                    # every third value: a fault on the kernel map (START word 2 set)
                    evs = [E.ev('MACH_vmfault', 1, (1, 2, 1 if p1 % 3 == 0 else 0, 0)), E.ev(first_kind, 0, (9, (7 << 16) | (p1 << 8) | 2, 5, 6))] + between + \
                          [E.ev('MACH_vmfault', 2, (0, 0, 0, 2)), E.ev('MACH_vmfault', 1, (1, 3, 0, 0))] + \
                          [E.ev(k, 0, (9, (7 << 16) | (0xff << 8) | 2, 5, 6)) for k in second] + [E.ev('MACH_vmfault', 2, (0, 0, 0, 2))]
                    try:
                        out = [t for t in TracesParser(E.codes(), {}, {}).feed_generator(E.restamp(evs)) if type(t).__name__ == 'MachVmfault']
                        t1, t2 = E.stable_str(out[0]), E.stable_str(out[1])
                        bad = None
                        shown1 = set(re.findall(r'\bVM_PROT_[A-Z_]+\b', t1))
                        exp1 = {n for n, v in DW.VM_PROT.items() if v and v & p1 and n != 'VM_PROT_WANTS_COPY'} or {'VM_PROT_NONE'}
                        if shown1 != exp1:
                            bad = ('name-shown-for-bit-not-set' if shown1 - exp1 else 'declared-set-bit-not-shown', {'text': t1, 'prot': hex(p1)})
                        elif re.findall(r'\bVM_PROT_[A-Z_]+\b', t2):
                            bad = ('name-shown-for-bit-not-set', {'text': t2, 'note': 'this window carries no protection word'})
                    except Exception as ex:
                        bad = ('raised:' + type(ex).__name__, {'error': repr(ex)[:200]})
                    acc.case(nontrivial=True, transitions=6)
                    if bad:
                        acc.violation(f'{bad[0]}@VM_PROT@vmfault-pairs', {'kind': 'vmprot-pairs', 'prot': p1, 'second': list(second), 'first_kind': first_kind}, bad[1])
        elif kind == 'sample-callstack':
            # the callstack state word of a SAMPLE (PerfEvent.cs_flags) is its stack header's word: every subset of the declared bits + 2
            # undeclared x header announcing 0 frames / 2 frames with their data record / 2 frames whose data record was lost
            bits, und = family_bits('CALLSTACK')
            for w in bit_subsets(bits + und):
                for shape in ('no-frames', 'frames', 'frames-lost'):
                    bad = judge_sample_callstack(w, shape)
                    acc.case(nontrivial=bin(w).count('1') >= 2, transitions=4, outcome=h64(('scs', w, shape)) if w < 64 else None)
                    if bad:
                        acc.violation(f'{bad[0]}@CALLSTACK@sample', {'kind': 'sample-callstack', 'word': hex(w), 'shape': shape}, bad[1])
        elif kind == 'sample-thread-state':
            # the thread-state word of a SAMPLE (PerfEvent.th_info) is that of the thread-data record in its window, whichever thread the
            # record is about (the logging thread itself, another thread as in profile-every-thread mode, thread 0)
            bits, und = family_bits('KPERF_TI')
            for w in bit_subsets(bits + und):
                for about in (1, 2, 0):
                    bad = judge_sample_thread_state(w, about)
                    acc.case(nontrivial=bin(w).count('1') >= 2, transitions=3, outcome=h64(('sts', w, about)) if w < 64 else None)
                    if bad:
                        acc.violation(f'{bad[0]}@KPERF_TI@sample', {'kind': 'sample-thread-state', 'word': hex(w), 'about': about}, bad[1])
        elif kind == 'open':
            _, site, mode = desc
            dec = declared('bsd.BscOpenFlags')
            bits = sorted({DW.OPEN_FLAGS[n] for n in dec if n in DW.OPEN_FLAGS}) + [0x80, 1 << 40]
            for w0 in (bit_subsets(bits) if site not in OPEN_SITES_2 else sorted(set(bit_subsets(bits, 2)))):
                w = w0 | mode
                bad = judge_open(site, w)
                acc.case(nontrivial=bin(w0).count('1') >= 2, transitions=2)
                if bad:
                    acc.violation(f'{bad[0]}@{site}', {'kind': 'open', 'site': site, 'word': hex(w)}, bad[1])
        elif kind == 'stat':
            _, site, t = desc
            perm = sorted(set(DW.MODE_BITS.values()))
            for w0 in (bit_subsets(perm) if site not in STAT_SITES_2 else sorted(set(bit_subsets(perm, 2)))):
                for extra in (0, 1 << 20):
                    w = w0 | (t << 12) | extra
                    bad = judge_stat(site, w)
                    acc.case(nontrivial=bin(w0).count('1') >= 2 or t in (6, 10, 12), transitions=2)
                    if bad:
                        acc.violation(f'{bad[0]}@{site}', {'kind': 'stat', 'site': site, 'word': oct(w)}, bad[1])
                    elif acc.want_sample() and t == 10 and w0 == 0o644:
                        acc.sample({'site': site, 'mode': oct(w)})
        else:
            _, half, k = desc
            if half == 'hi':
                lows = [0x0000, 0x7401, 0xff00, 0x27ff]
                ws = ((h << 16) | lows[k] for h in range(65536))
            else:
                highs = [0x2000, 0x4008, 0x8004, 0xc020, 0x9fff, 0xdfff, 0x0000, 0xe001]
                ws = ((highs[k] << 16) | lo for lo in range(65536))
            for w in ws:
                bad = judge_ioctl(w)
                acc.case(nontrivial=(w & DW.IOC_DIRMASK) in IOC_DIRS, transitions=2)
                if bad:
                    acc.violation(f'{bad[0]}', {'kind': 'ioctl', 'word': hex(w)}, bad[1])
            acc.sample({'ioctl_word': hex(0xc0206911)})

    def replay(self, case):
        k = case['kind']
        if k == 'vmprot-pairs':
            from mc.run import Acc
            acc = Acc()
            self.run_shard(('vmprot-pairs',), acc)
            return [(sig, v['cases'][0][1]) for sig, v in acc.violations.items()]
        if k == 'sample-thread-state':
            bad = judge_sample_thread_state(int(case['word'], 16), case['about'])
            return [(f"{bad[0]}@KPERF_TI@sample", bad[1])] if bad else []
        if k == 'sample-callstack':
            bad = judge_sample_callstack(int(case['word'], 16), case['shape'])
            return [(f"{bad[0]}@CALLSTACK@sample", bad[1])] if bad else []
        if k == 'fam':
            bad = judge_family(case['family'], int(case['word'], 16))
            return [(f"{bad[0]}@{case['family']}", bad[1])] if bad else []
        if k == 'open':
            bad = judge_open(case['site'], int(case['word'], 16))
            return [(f"{bad[0]}@{case['site']}", bad[1])] if bad else []
        if k == 'stat':
            bad = judge_stat(case['site'], int(case['word'], 8))
            return [(f"{bad[0]}@{case['site']}", bad[1])] if bad else []
        bad = judge_ioctl(int(case['word'], 16))
        return [bad] if bad else []


if __name__ == '__main__':
    main(C11)
