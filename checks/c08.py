"""C08 — paths and strings split over several records are reassembled exactly, once.

Texts of every byte length 0..184 (3 content patterns incl. multi-byte UTF-8 characters straddling record boundaries) are
chunked the way the kernel does and fed stand-alone (lookups, global strings, thread names) and inside every path-taking
syscall decoder with k lookups and unrelated same-thread records in every gap."""
import itertools
import json
import os
import re

from mc.run import Check, main, h64
from mc import ev as E
from mc import build as B
from mc import domains as D
from mc.space import chunked
from pykdebugparser.traces_parser import TracesParser

with open(os.path.join(os.path.dirname(os.path.dirname(os.path.abspath(__file__))), 'mc', 'pathslots.json')) as _f:
    PATHSLOTS = json.load(_f)

QUOTED = re.compile(r'"([^"]*)"')
VN = 0x6162636465666768   # vnode ids with no zero byte: a text slice that starts one byte early would show it
NPAT = 10
ANSI = re.compile(r'\x1b\[[0-9;]*m')
INVISIBLE = ['\t', 'a', '\u00a0', '\u200d', 'b', '\u3000', '\u00ad', '\uf8ff', '\u202f']
SPECIAL = '{}%s\\{0}$(['


def text(L, pattern):
    """a text of exactly L bytes of UTF-8."""
    if pattern == 0 or L == 0:
        s = ''.join(chr(ord('a') + (i % 26)) for i in range(L))
    elif pattern == 1:   # 2-byte characters starting at odd offsets (straddle every even boundary)
        n = (L - 1) // 2
        s = 'x' + 'é' * n + ('y' if (L - 1) % 2 else '')
    elif pattern == 2:   # 3-byte characters
        r = L % 3
        s = 'z' * r + '€' * (L // 3)
    elif pattern == 3:   # only separators: every chunk ends (and begins) with '/'
        s = '/' * L
    elif pattern == 6:   # valid text that is not 'printable': tab, no-break space, zero-width joiner, ideographic space, soft hyphen, private use
        s = ''
        i = 0
        while len((s + INVISIBLE[i % len(INVISIBLE)]).encode()) <= L:
            s += INVISIBLE[i % len(INVISIBLE)]
            i += 1
        s += 'x' * (L - len(s.encode()))
    elif pattern == 7:   # a relative text that ENDS with the characters recorders use as filler ('>'), preceded by a dot run
        k = min(L, 3)
        s = ('a' + '.' * (L - k - 1) if L - k >= 1 else '') + '>' * k
    elif pattern == 9:   # a relative text that BEGINS with U+FEFF (EF BB BF: a legal character of a file name, not a mark of the decoder)
        s = ('\ufeff' + 'n' * (L - 3)) if L >= 3 else 'n' * L
    elif pattern == 8:   # terminal escape sequences inside the text (a file may be called anything)
        unit = '\x1b[31mr\x1b[0m'
        s = (unit * (L // len(unit) + 1))[:L]
    elif pattern == 5:   # characters that mean something to str.format, %-formatting and regexes
        s = ''.join(SPECIAL[i % len(SPECIAL)] for i in range(L))
    else:                # blanks and dots: every chunk ends with a character a careless strip() would eat
        s = ''.join(' .'[i % 2] for i in range(L))
    assert len(s.encode()) == L, (L, pattern)
    return s


def lookup_events(vnode, txt, tid=1):
    return [E.ev('VFS_LOOKUP', q, tid=tid, data=d) for d, q in B.lookup_chunks(vnode, txt)]


def gstring_events(str_id, txt, tid=1):
    return [E.ev('TRACE_STRING_GLOBAL', q, tid=tid, data=d) for d, q in B.global_string_chunks(0x1f050008, str_id, txt)]


def threadname_events(txt, tid=1, code='TRACE_STRING_THREADNAME'):
    ch = B.threadname_chunks(txt)
    if len(ch) == 1:
        return [E.ev(code, 0, tid=tid, data=ch[0][0])]
    return [E.ev(code, q, tid=tid, data=d) for d, q in ch]


def unrelated(kind, tid=1):
    if kind == 'T':
        # an unrelated record of the SAME pairing domain as the strings (kernel trace data), carrying non-text bytes
        return E.ev('TRACE_DATA_NEWTHREAD', 0, (0x9500, 0x96, 0, 0), tid=tid)
    if kind == 'D':
        # a record whose name merely starts like the lookup records' name
        return E.ev('VFS_LOOKUP_DONE', 0, tid=tid, data=B.le(0x77, 8) + b'/done'.ljust(24, b'\0'))
    if kind == 'S':
        # the START of another call of the same thread whose END never arrives (e.g. a throttle window closed by another thread)
        return E.ev('BSC_getppid', 1, (1, 2, 3, 4), tid=tid)
    if kind == 'X':
        # the own terminate record of the thread (a decodable kernel trace-data record naming this very thread)
        return E.ev('TRACE_DATA_THREAD_TERMINATE', 0, (tid, 0, 0, 0), tid=tid)
    if kind == 'L':
        return E.ev('TRACE_LOST_EVENTS', 0, (0, 0, 0, 0), tid=tid)
    if kind == 'Q':
        # a complete one-record kernel string of ANOTHER kind (START|END) written by the same thread
        return E.ev('TRACE_STRING_NEWTHREAD', 3, tid=tid, data=b'intruder'.ljust(32, b'\0'))
    if kind == 'K':
        return E.ev('MACH_vm_page_release', 0, (1, 2, 3, 4), tid=tid)
    if kind == 'U':
        return E.ev(0xdead0000, 0, (1, 2, 3, 4), tid=tid)
    return E.ev('MACH_WAIT', 0, (0x10, 0, 0, 0), tid=tid)


_GAP_CODES = None


def gap_codes():
    """event ids of the records this check inserts as 'unrelated': a trace that begins with one of them belongs to that record."""
    global _GAP_CODES
    if _GAP_CODES is None:
        _GAP_CODES = {E.n2i(n) for n in ('BSC_getpid', 'MACH_WAIT', 'TRACE_DATA_NEWTHREAD', 'TRACE_DATA_THREAD_TERMINATE', 'TRACE_LOST_EVENTS',
                                          'MACH_vm_page_release', 'VFS_LOOKUP_DONE', 'BSC_getppid', 'TRACE_STRING_NEWTHREAD')} | {0xdead0000}
    return _GAP_CODES


def run(events, same_tick=False):
    p = TracesParser(E.codes(), {}, {})
    out = list(p.feed_generator([e._replace(timestamp=7) for e in events] if same_tick else E.restamp(events)))
    return out, p


def with_stale_start(evs, kind):
    """prepend the START record of an earlier text of the same kind whose END record was lost."""
    tid = evs[0].tid
    if kind == 'lookup':
        return [E.ev('VFS_LOOKUP', 1, tid=tid, data=B.le(0x5555, 8) + b'/stale/stale/stale/stale/'[:24])] + evs
    if kind == 'gstring':
        return [E.ev('TRACE_STRING_GLOBAL', 1, tid=tid, data=B.le(1, 8) + B.le(999, 8) + b'stale-stale-stal')] + evs
    return evs


def with_gaps(evs, gap):
    """insert unrelated same-thread records (undecoded, unknown, decodable NONE, and a complete decodable START/END pair)
    between the chunk records; gap = None | kind."""
    if gap is None or len(evs) < 2:
        return evs
    tid = evs[0].tid
    if gap == 'straddle':
        # an unrelated call of the thread that begins BEFORE the text and ends between its records (sequences overlap freely)
        return [E.ev('BSC_getpid', 1, (1, 2, 3, 4), tid=tid), evs[0], E.ev('BSC_getpid', 2, (0, 7, 0, 0), tid=tid)] + list(evs[1:])
    out = [evs[0]]
    for e in evs[1:]:
        if gap == 'pair':
            out += [E.ev('BSC_getpid', 1, (1, 2, 3, 4), tid=tid), E.ev('BSC_getpid', 2, (0, 7, 0, 0), tid=tid)]
        else:
            out.append(unrelated(gap, tid=tid))
        out.append(e)
    return out


def judge_headless(kind, L, pattern):
    """the dump (or the thread's part of it) begins in the middle of a split text: the first k records are missing. The remaining
    continuation records produce no trace and leave the tables alone."""
    txt = text(L, pattern)
    if kind == 'lookup':
        evs = lookup_events(0x4142434445464748, txt)
    elif kind == 'gstring':
        evs = gstring_events(777, txt)
    else:
        evs = threadname_events(txt, tid=5, code='TRACE_STRING_THREADNAME' if kind == 'threadname' else 'TRACE_STRING_THREADNAME_PREV')
    bad = []
    for k in range(1, len(evs)):
        out, p = run(evs[k:])
        if out or p.global_strings or p.tids_names:
            bad.append((f'continuation-record-produced-its-own-trace:{kind}:text-whose-first-records-are-missing',
                        {'records_missing': k, 'of': len(evs), 'traces': [str(t) for t in out][:3], 'strings': repr(p.global_strings)[:100], 'names': repr(p.tids_names)[:100]}))
            break
    return bad


def judge_listing(kind, L, pattern):
    """the same text through the facade's formatted listing of a dump file: the line ends with exactly the trace's text."""
    import io
    from pykdebugparser.pykdebugparser import PyKdebugParser
    txt = text(L, pattern)
    if kind == 'lookup':
        evs = lookup_events(0x4142434445464748, txt)
        want = f'lookup("{txt}"), vnode id: {0x4142434445464748}'
    elif kind == 'gstring':
        evs = gstring_events(777, txt)
        want = None
    else:
        evs = threadname_events(txt, tid=5, code='TRACE_STRING_THREADNAME' if kind == 'threadname' else 'TRACE_STRING_THREADNAME_PREV')
        want = None
    recs = [B.rec(i + 1, tid=e.tid, debugid=e.debugid, data=e.data) for i, e in enumerate(evs)]
    blob = B.v2([(1, 10, 'p'), (5, 10, 'p')], 0, recs)
    ref = [str(t) for t in run(evs)[0]]
    bad = []
    # the command-line tool (plain output): every printed line ends with exactly the trace's text
    from mc.cli import run_cli
    code, out_lines, exc = run_cli(blob, ['traces', '--no-color'])
    if code != 0 or exc is not None or len(out_lines) != len(ref) or not all(l.endswith(r) for l, r in zip(out_lines, ref)):
        return [('command-line-line-does-not-end-with-the-text', {'exit': code, 'error': repr(exc)[:120], 'lines': out_lines[:2], 'text': ref[:2]})]
    if kind == 'lookup':
        # an enclosing call asked for by class / subclass, together with OTHER file-system subclasses (the fs_usage view): it still shows
        # the looked-up path (the lookups are read for the decoders whether or not they are listed themselves)
        call = [B.rec(1, (1, 0, 0, 0), 1, E.n2i('BSC_open') | 1)] + [B.rec(2 + i, tid=1, debugid=e.debugid, data=e.data) for i, e in enumerate(evs)] + \
               [B.rec(90, (0, 3, 0, 0), 1, E.n2i('BSC_open') | 2)]
        cblob = B.v2([(1, 10, 'p')], 0, call)
        for cl, sc in (([4], []), ([4], [0x0302]), ([], [0x040c, 0x030a]), ([4], [0x0303, 0x0701]), ([4, 3], [0x0302])):
            f = PyKdebugParser()
            f.color = False
            f.filter_class, f.filter_subclass = cl, sc
            try:
                opens = [x for x in f.formatted_traces(io.BytesIO(cblob), dict(E.codes())) if 'open(' in x]
            except Exception as ex:
                return [('listing-raised:' + type(ex).__name__, {'error': repr(ex)[:200], 'len': L, 'classes': cl, 'subclasses': sc})]
            if len(opens) != 1 or f'open("{txt}",' not in opens[0]:
                return [('path-argument-differs-from-lookup:under-class-and-subclass-filters', {'classes': cl, 'subclasses': sc, 'lines': opens[:2], 'path': txt})]
    for color in ((False, True) if pattern != 8 else (False,)):
        f = PyKdebugParser()
        f.color = color
        try:
            lines = [ANSI.sub('', x) if color else x for x in f.formatted_traces(io.BytesIO(blob), dict(E.codes()))]
        except Exception as ex:
            return [('listing-raised:' + type(ex).__name__, {'error': repr(ex)[:200], 'len': L, 'color': color})]
        if len(lines) != len(ref) or not all(l.endswith(r) for l, r in zip(lines, ref)) or (want and ref != [want]):
            bad.append(('listing-line-does-not-end-with-the-text', {'lines': lines[:2], 'text': ref[:2], 'color': color}))
            break
    return bad


def judge_standalone(kind, L, pattern, gap=None):
    txt = text(L, pattern)
    bad = []
    if kind == 'lookup':
        evs = with_gaps(lookup_events(0x4142434445464748, txt), gap if gap != 'stale' else None)
        if gap == 'stale':
            evs = with_stale_start(evs, 'lookup')
        out, p = run(evs)
        out = [t for t in out if t.ktraces[0].eventid not in gap_codes()]
        lk = [t for t in out if type(t).__name__ == 'VfsLookup']
        if len(out) != 1 or len(lk) != 1:
            return [('continuation-record-produced-its-own-trace:lookup' if len(out) > 1 else 'lookup-trace-missing',
                     {'n_records': len(evs), 'traces': [str(t) for t in out][:4]})]
        if lk[0].path != txt or lk[0].vnode_id != 0x4142434445464748:
            bad.append(('lookup-text-or-vnode-wrong', {'got': lk[0].path, 'vnode': lk[0].vnode_id, 'len': L}))
        if len(lk[0].ktraces) < len(lookup_events(0, txt)):
            bad.append(('lookup-window-incomplete', {'got': len(lk[0].ktraces), 'exp': len(evs)}))
    elif kind == 'gstring':
        evs = with_gaps(gstring_events(777, txt), gap if gap != 'stale' else None)
        if gap == 'stale':
            evs = with_stale_start(evs, 'gstring')
        out, p = run(evs)
        out = [t for t in out if t.ktraces[0].eventid not in gap_codes()]
        gs = [t for t in out if type(t).__name__ == 'TraceStringGlobal']
        if len(out) != 1 or len(gs) != 1:
            return [('continuation-record-produced-its-own-trace:global-string' if len(out) > 1 else 'global-string-trace-missing',
                     {'n_records': len(evs), 'traces': [str(t) for t in out][:4]})]
        if gs[0].vstr != txt or gs[0].str_id != 777:
            bad.append(('global-string-text-or-id-wrong', {'got': gs[0].vstr, 'id': gs[0].str_id, 'len': L}))
        exp = {777: txt} if txt else {}
        if p.global_strings != exp:
            bad.append(('global-strings-table-wrong', {'got': repr(p.global_strings)[:200], 'exp_keys': list(exp)}))
    else:
        code = 'TRACE_STRING_THREADNAME' if kind == 'threadname' else 'TRACE_STRING_THREADNAME_PREV'
        evs = with_gaps(threadname_events(txt, tid=5, code=code), gap)
        out, p = run(evs)
        out = [t for t in out if t.ktraces[0].eventid not in gap_codes()]
        if len(out) != 1:
            return [('thread-name-trace-count', {'n': len(out), 'n_records': len(evs)})]
        if out[0].name != txt:
            bad.append(('thread-name-text-wrong', {'got': out[0].name, 'len': L}))
        if p.tids_names != {5: txt}:
            bad.append(('thread-names-table-wrong', {'got': repr(p.tids_names)[:200]}))
    return bad


def expected_slots(name, texts):
    kind = PATHSLOTS[name]
    k = len(texts)
    if kind == 'one':
        return [texts[0] if k else '']
    if kind == 'two':
        return [texts[0] if k > 0 else '', texts[1] if k > 1 else '']
    if name == 'BSC_fsgetpath':
        return [texts[0]] if k and texts[0] else []
    if name == 'BSC_posix_spawn':
        if k >= 6:
            return [texts[3]]
        return [texts[0] if k else '']
    if name == 'BSC_symlinkat':
        return [texts[0] if k > 1 else '', texts[-1] if k else '']
    raise KeyError(name)


SAME_VNODE = [False]      # set while the window's lookups all carry ONE vnode id (paths under one directory vnode / a retried lookup)


def judge_enclosed(name, texts, gaps, same_tick=False):
    """texts: list of looked-up texts; gaps: dict position -> unrelated kind inserted before lookup i (or after last)."""
    s, e = D.in_domain(name, 'se', (0x1111, 0x2222, 0x3333, 0x4444), (0, 0x55, 0x66, 0x77), 1)
    evs = [E.ev(name, 1, s)]
    for i, t in enumerate(texts):
        if i in gaps:
            evs.append(unrelated(gaps[i]))
        # key 100+i: the unrelated record sits BETWEEN the records of lookup i
        evs += with_gaps(lookup_events(VN if SAME_VNODE[0] else VN + i, t), gaps.get(100 + i))
    if len(texts) in gaps:
        evs.append(unrelated(gaps[len(texts)]))
    evs.append(E.ev(name, 2, e))
    out, p = run(evs, same_tick)
    bad = []
    mine = [t for t in out if t.ktraces[0].eventid == evs[0].eventid]
    lks = [t for t in out if type(t).__name__ == 'VfsLookup']
    if len(mine) != 1:
        return [('enclosing-trace-count', {'n': len(mine)})]
    if [t.path for t in lks] != list(texts) or [t.vnode_id for t in lks] != [VN if SAME_VNODE[0] else VN + i for i in range(len(texts))]:
        bad.append(('lookup-traces-differ-from-lookups', {'got': [t.path for t in lks][:4], 'exp_n': len(texts)}))
    got = QUOTED.findall(str(mine[0]))
    exp = expected_slots(name, list(texts))
    if got != exp:
        bad.append((f'path-argument-differs-from-lookup@{name}', {'shown': got, 'expected': exp, 'text': str(mine[0])[:300]}))
    return bad


class C08(Check):
    pid = 'C08'
    level = 'model_checking'
    rule = ('texts of every byte length 0..184 x 5 content patterns (ASCII; 2-byte and 3-byte UTF-8 characters placed to '
            'straddle record boundaries; all separators; blanks and dots; characters that mean something to str.format, %-formatting and regexes; tabs, no-break / ideographic spaces, zero-width joiners, soft hyphens, private-use characters) chunked kernel-style: (a) stand-alone VFS_LOOKUP, TRACE_STRING_GLOBAL (lengths '
            '0..184) and THREADNAME / THREADNAME_PREV (0..63) record sequences, bare and with an unrelated same-thread record (undecoded, unknown, decodable NONE, a kernel trace-data record with non-text bytes, a VFS_LOOKUP_DONE record, the own terminate record of the thread, the lost-events marker, the never-ended START of another call, a complete START/END pair) in every gap between the chunk records, with the first k records missing (the dump begins inside the text: no trace, no table entry), through the formatted listing of a dump file for the special-character patterns, and preceded by the START record of an earlier text whose END was lost - exactly one trace with exactly the text (and '
            'vnode id / string id), tables hold exactly the announced text; (b) every path-taking BSD decoder (66 names, frozen '
            'slot table) x one lookup of every length x patterns; x k in {0,1,2,3,6} lookups of boundary lengths '
            '{0,1,23,24,25,55,56,57,184} x an unrelated same-thread record (undecoded, unknown, decodable NONE, kernel trace data, look-alike, the own terminate record of the thread, the lost-events marker) in every gap between lookups, and (lengths 25/56/184) between the RECORDS of each multi-record lookup. '
            'Oracle: quoted path slots equal the looked-up texts in lookup order (documented slot choice for posix_spawn, '
            'symlinkat, fsgetpath). states = distinct (record count, decoder) shapes; transitions = feed calls; non-trivial = the '
            'text spans >=2 records.')
    assumptions = ('texts are valid UTF-8 without NUL and without double quotes',
                   'kernel chunking: 8-byte vnode id + 24 text bytes in the first lookup record, 32 after; 16 header bytes '
                   'for global strings; START on first, END on last record; thread names <=32 bytes as one NONE record',
                   'slot table mc/pathslots.json frozen from the pinned commit (53 one-path, 10 two-path, 3 special)')

    def bounds(self):
        return {'max_len': 184, 'patterns': NPAT, 'path_decoders': len(PATHSLOTS)}

    def shards(self):
        out = [('standalone', kind) for kind in ('lookup', 'gstring', 'threadname', 'threadname_prev')]
        out += [('enc1', ch) for ch in chunked(sorted(PATHSLOTS), 33)]
        out += [('enck', ch) for ch in chunked(sorted(PATHSLOTS), 22)]
        return out

    def run_shard(self, desc, acc):
        if desc[0] == 'standalone':
            kind = desc[1]
            maxl = 184 if kind in ('lookup', 'gstring') else 63
            for L in range(maxl + 1):
                for pattern in range(NPAT):
                    first = {'lookup': 24, 'gstring': 16}.get(kind, 32)
                    nrec = 1 if L <= first else 1 + -(-(L - first) // 32)
                    for gap in ((None, 'stale') if nrec < 2 else (None, 'K', 'U', 'W', 'T', 'D', 'X', 'L', 'S', 'Q', 'pair', 'straddle', 'stale')):
                        try:
                            bad = judge_standalone(kind, L, pattern, gap)
                        except Exception as ex:
                            bad = [('raised:' + type(ex).__name__, {'error': repr(ex)[:200]})]
                        acc.case(nontrivial=nrec >= 2, transitions=nrec, state=h64((kind, nrec)), outcome=h64((kind, nrec, not bad)))
                        for sig, detail in bad:
                            acc.violation(sig, {'kind': 'standalone', 'what': kind, 'len': L, 'pattern': pattern, 'gap': gap}, detail)
                    if nrec >= 2 and pattern in (0, 5):
                        for sig, detail in judge_headless(kind, L, pattern):
                            acc.violation(sig, {'kind': 'headless', 'what': kind, 'len': L, 'pattern': pattern}, detail)
                        acc.case(nontrivial=True, transitions=nrec, state=h64((kind, 'headless')))
                    if pattern in (5, 6, 7, 8, 9) and (L % 7 == 3 or L in (24, 56, 184)):
                        for sig, detail in judge_listing(kind, L, pattern):
                            acc.violation(sig, {'kind': 'listing', 'what': kind, 'len': L, 'pattern': pattern}, detail)
                        acc.case(nontrivial=True, transitions=2 * nrec, state=h64((kind, 'listing')))
                    if not bad and nrec >= 3 and acc.want_sample():
                        acc.sample({'kind': kind, 'len': L, 'pattern': pattern, 'records': nrec})
        elif desc[0] == 'enc1':
            for name in desc[1]:
                for L in range(185):
                    for pattern in range(NPAT):
                        self._enc(acc, name, [text(L, pattern)], {})
        else:
            LENS = [0, 1, 23, 24, 25, 55, 56, 57, 184]
            for name in desc[1]:
                ks = [0, 2, 3, 6] if self.tier == 'thorough' or PATHSLOTS[name] != 'one' else [0, 2, 6]
                for k in ks:
                    for li, L in enumerate(LENS):
                        texts = [text(LENS[(li + j) % len(LENS)] if j else L, (j + li) % NPAT) + (str(j) if LENS[(li + j) % len(LENS)] < 184 and j else '') for j in range(k)]
                        texts = [t.encode()[:184].decode(errors='ignore') for t in texts]
                        self._enc(acc, name, texts, {})
                        if li < 3:
                            for pos in range(k + 1):
                                for kind in ('K', 'U', 'W', 'T', 'D', 'X', 'L', 'S'):
                                    self._enc(acc, name, texts, {pos: kind})
                        if k >= 2:
                            # the SAME text looked up k times (only the vnode ids differ), on increasing ticks and all on one tick
                            for pat in range(NPAT):
                                same = [text(L, pat)] * k
                                self._enc(acc, name, same, {})
                                self._enc(acc, name, same, {}, same_tick=True)
                            self._enc(acc, name, texts, {}, same_tick=True)
                            # ... and with ONE vnode id on all lookups of the window (equal neighbours included)
                            SAME_VNODE[0] = True
                            try:
                                self._enc(acc, name, texts, {})
                                for pat in (0, 3):
                                    self._enc(acc, name, [text(L, pat)] * k, {})
                            finally:
                                SAME_VNODE[0] = False
                        if li in (4, 6, 8):
                            for pos in range(k):
                                for kind in ('K', 'W', 'T', 'D', 'X', 'S', 'pair'):
                                    self._enc(acc, name, texts, {100 + pos: kind})

    def _enc(self, acc, name, texts, gaps, same_tick=False):
        try:
            bad = judge_enclosed(name, texts, gaps, same_tick)
        except Exception as ex:
            bad = [('raised:' + type(ex).__name__ + '@' + name, {'error': repr(ex)[:200]})]
        nrec = sum(len(B.lookup_chunks(0, t)) for t in texts)
        acc.case(nontrivial=any(len(t.encode()) > 24 for t in texts), transitions=nrec + 2 + len(gaps),
                 state=h64((name, nrec)), outcome=h64((name, len(texts), not bad)))
        for sig, detail in bad:
            acc.violation(sig + (':all-records-on-one-tick' if same_tick else '') + (':one-vnode-id' if SAME_VNODE[0] else ''),
                          {'kind': 'enclosed', 'decoder': name, 'texts': texts, 'gaps': {str(k): v for k, v in gaps.items()}, 'same_tick': same_tick, 'same_vnode': SAME_VNODE[0]}, detail)

    def replay(self, case):
        if case['kind'] == 'headless':
            return judge_headless(case['what'], case['len'], case['pattern'])
        if case['kind'] == 'listing':
            return judge_listing(case['what'], case['len'], case['pattern'])
        if case['kind'] == 'standalone':
            return judge_standalone(case['what'], case['len'], case['pattern'], case.get('gap'))
        SAME_VNODE[0] = bool(case.get('same_vnode'))
        try:
            bad = judge_enclosed(case['decoder'], case['texts'], {int(k): v for k, v in case['gaps'].items()}, case.get('same_tick', False))
        finally:
            SAME_VNODE[0] = False
        return [(sig + (':all-records-on-one-tick' if case.get('same_tick') else '') + (':one-vnode-id' if case.get('same_vnode') else ''), d) for sig, d in bad]


if __name__ == '__main__':
    main(C08)
