"""C20 — composite traces reflect exactly the records nested in their window.

Page fault, launch and sampler windows: all nested sequences up to a bound over the relevant record kinds mixed with
unrelated same-thread records, all flag combinations, all END results / fault types / protection bytes."""
import itertools
import re

from mc.run import Check, main, h64
from mc import ev as E
from mc import darwin as DW
from mc.space import seqs, chunked
from pykdebugparser.traces_parser import TracesParser

DECODED_KINDS = ['RealFaultAddressInternal', 'RealFaultAddressExternal', 'RealFaultAddressSharedCache']
NESTED_KINDS = DECODED_KINDS + ['RealFaultAddressPurgeable', 'W', 'K', 'U']


PID_BASE = [100]


def nested_event(kind, i, prot=3, ftype=2, tid=1):
    if kind == 'W':
        return E.ev('MACH_WAIT', 0, (0x10, 0, 0, 0), tid=tid)
    if kind == 'K':
        return E.ev('MACH_vm_page_release', 0, (1, 2, 3, 4), tid=tid)
    if kind == 'U':
        return E.ev(0xdead0000, 0, (1, 2, 3, 4), tid=tid)
    return E.ev(kind, 0, (0x7000 + i, (0x99 << 16) | (prot << 8) | ftype, 5, PID_BASE[0] + i), tid=tid)


TABLES = ['stock'] + ['minus:' + k for k in DECODED_KINDS] + ['plus:RealFaultAddressPurgeable']


def decoded_kinds(table):
    if table.startswith('minus:'):
        return [k for k in DECODED_KINDS if k != table[6:]]
    if table.startswith('plus:'):
        return DECODED_KINDS + [table[5:]]
    return DECODED_KINDS


ALIAS = {'PERF_THD_Data': 0xdead1000, 'PERF_STK_UHdr': 0xdead1004, 'PERF_STK_UData': 0xdead1008, 'DYLD_uuid_map_a': 0xdead1010, 'DYLD_uuid_shared_cache_a': 0xdead1014}
STAMPS = ['up']          # 'down': the records carry DEcreasing timestamps (position in the stream, not the stamp, defines a window)
CODES = ['stock']        # 'alias-added': the table names a second id for each nested sampler kind, listed after the stock one;
#                          'alias-used': the nested sampler records carry those second ids


def run(events, table='stock'):
    codes = E.codes()
    if CODES[0] != 'stock':
        codes = dict(codes)
        for nm, i in ALIAS.items():
            codes[i] = nm
        if CODES[0] == 'alias-used':
            stock = {E.n2i(nm): i for nm, i in ALIAS.items()}
            events = [e._replace(eventid=stock[e.eventid], debugid=stock[e.eventid] | e.func_qualifier) if e.eventid in stock else e for e in events]
    if STAMPS[0] == 'down':
        n = len(events)
        p = TracesParser(codes, {}, {})
        _withdraw(p, table)
        return list(p.feed_generator([e._replace(timestamp=1000 + n - i) for i, e in enumerate(events)]))
    p = TracesParser(codes, {}, {})
    _withdraw(p, table)
    return list(p.feed_generator(E.restamp(events)))


def _withdraw(p, table):
    # which kinds the tool decodes is the decoder table of the parser object that is fed: one withdrawn / one taught
    if table.startswith('minus:'):
        del p.handlers[table[6:]]
    elif table.startswith('plus:'):
        p.handlers[table[5:]] = p.handlers['RealFaultAddressInternal']


def prot_names(prot):
    if prot == 0:
        return ['VM_PROT_NONE']
    return sorted(n for n, v in DW.VM_PROT.items() if v and v & prot and n != 'VM_PROT_WANTS_COPY')


def judge_vmfault(nested, result, ftype, prot, pid_base=100, table='stock'):
    PID_BASE[0] = pid_base
    try:
        return _judge_vmfault(nested, result, ftype, prot, pid_base, table)
    finally:
        PID_BASE[0] = 100


def _judge_vmfault(nested, result, ftype, prot, pid_base, table='stock'):
    DECODED_KINDS = decoded_kinds(table)
    evs = [E.ev('MACH_vmfault', 1, (0xaaaa, 0xbbbb, 1, 0))]
    for i, k in enumerate(nested):
        evs.append(nested_event(k, i, prot=prot))
    evs.append(E.ev('MACH_vmfault', 2, (0, 0, result, ftype)))
    try:
        out = run(evs, table)
        vm = [t for t in out if type(t).__name__ == 'MachVmfault']
        if len(vm) != 1:
            return ('vmfault-trace-count', {'n': len(vm)})
        txt = str(vm[0])
    except Exception as ex:
        return ('vmfault-raised:' + type(ex).__name__, {'error': repr(ex)[:200]})
    if len(vm[0].ktraces) != len(evs):
        return ('composite-window-incomplete', {'kind': 'vmfault', 'got': len(vm[0].ktraces), 'expected': len(evs)})
    m = re.search(r'result: (-?\d+)', txt)
    if not m or int(m.group(1)) != result:
        return ('vmfault-result-not-from-END', {'text': txt, 'result': result})
    tm = re.search(r'type: (\w+)', txt)
    if result == 0:
        if not tm or tm.group(1) != DW.VM_FAULT_TYPES[ftype]:
            return ('vmfault-type-not-from-END', {'text': txt, 'type': ftype})
    elif tm and tm.group(1) != DW.VM_FAULT_TYPES.get(ftype):
        return ('vmfault-type-not-from-END', {'text': txt, 'type': ftype})
    pm = re.search(r'vm_prot: ([A-Z_ |]*), pid: (\d+)', txt)
    real = [(i, k) for i, k in enumerate(nested) if k.startswith('RealFault')]
    if not real:
        if pm:
            return ('vmfault-pid-without-nested-record', {'text': txt})
        return None
    first_i, first_k = real[0]
    if pm:
        shown_pid = int(pm.group(2))
        shown_prot = sorted(x.strip() for x in pm.group(1).split('|') if x.strip())
        if first_k in DECODED_KINDS:
            cands = [first_i]
        else:
            cands = [i for i, k in real if k in DECODED_KINDS]   # leniency: first record undecoded -> a later decoded one
        if not any(shown_pid == pid_base + i for i in cands) or shown_prot != prot_names(prot):
            return ('vmfault-pid-or-protection-not-from-first-nested-record', {'text': txt, 'nested': list(nested), 'prot': prot})
    else:
        if result == 0 and first_k in DECODED_KINDS:
            return ('vmfault-pid-omitted-despite-nested-record', {'text': txt, 'nested': list(nested)})
    return None


LAUNCH_KINDS = ['a1', 'a2', 'a2b', 's1', 's2', 'b', 'W', 'a3q', 's3q']     # ..q: the record carries the ALL qualifier (START|END)


def launch_event(kind, i, tid=1):
    if kind == 'b':
        return E.ev('DYLD_uuid_map_b', 0, (7, 0, 0, 0), tid=tid)
    if kind == 'W':
        return E.ev('MACH_WAIT', 0, (0x10, 0, 0, 0), tid=tid)
    addr = {'a1': 0x1000, 'a2': 0x2000, 'a2b': 0x2000, 's1': 0x1800, 's2': 0x2000, 'a3q': 0x3000, 's3q': 0x2800}[kind]
    name = 'DYLD_uuid_map_a' if kind[0] == 'a' else 'DYLD_uuid_shared_cache_a'
    return E.ev(name, 3 if kind.endswith('q') else 0, (0x100 + i, 0x200 + i, addr, 9), tid=tid)


def judge_launch(nested):
    evs = [E.ev('DBG_DYLD_TIMING_LAUNCH_EXECUTABLE', 1, (0, 0x4000, 0, 0))]
    exp = []
    for i, k in enumerate(nested):
        e = launch_event(k, i)
        evs.append(e)
        if k[0] in 'as':
            exp.append((e.values[2], e.data[:16], 'DyldUuidMapA' if k[0] == 'a' else 'DyldUuidSharedCacheA'))
    evs.append(E.ev('DBG_DYLD_TIMING_LAUNCH_EXECUTABLE', 2, (0, 0, 0, 0)))
    try:
        out = run(evs)
        la = [t for t in out if type(t).__name__ == 'DyldLaunchExecutable']
        if len(la) != 1:
            return ('launch-trace-count', {'n': len(la)})
        got = [(x.load_addr, x.uuid.bytes, type(x).__name__) for x in la[0].uuid_map_a]
        str(la[0])
    except Exception as ex:
        return ('launch-raised:' + type(ex).__name__, {'error': repr(ex)[:200]})
    if len(la[0].ktraces) != len(evs):
        return ('composite-window-incomplete', {'kind': 'launch', 'got': len(la[0].ktraces), 'expected': len(evs)})
    if sorted(got) != sorted(exp):
        return ('launch-list-not-the-nested-map-records', {'got_n': len(got), 'exp_n': len(exp), 'nested': list(nested)})
    if [g[0] for g in got] != sorted(g[0] for g in got):
        return ('launch-list-not-sorted-by-load-address', {'got': [hex(g[0]) for g in got]})
    if la[0].main_executable_mh != 0x4000:
        return ('launch-header-field', {})
    return None


SAMPLE_ITEMS = ['T', 'H', 'D1', 'D2', 'W', 'O']   # THD_Data, UHdr, UData, UData, unrelated, other thread's UData


NESTED_Q = [0]              # function qualifier carried by the nested sampler records (kperf writes NONE; ALL is as legal)
START_TAIL = [(0, 0)]       # words 3 and 4 of the sampler START record (not the action mask, not the action id)


def judge_sampler(flags, items, nframes, hflags=1):
    """hflags: the stack header's own flag word (valid bit set or not: the header is present either way)."""
    evs = [E.ev('PERF_Event', 1, (flags, 7) + START_TAIL[0])]
    words = []
    for i, it in enumerate(items):
        if it == 'T':
            evs.append(E.ev('PERF_THD_Data', NESTED_Q[0], (55, 1, 0x66, 1)))
        elif it == 'H':
            evs.append(E.ev('PERF_STK_UHdr', NESTED_Q[0], (hflags, nframes, 0, 0)))
        elif it in ('D1', 'D2'):
            w = tuple(0x1000 * (i + 1) + j for j in range(4))
            words += list(w)
            evs.append(E.ev('PERF_STK_UData', NESTED_Q[0], w))
        elif it == 'W':
            evs.append(E.ev('MACH_WAIT', 0, (0x10, 0, 0, 0)))
        else:
            evs.append(E.ev('PERF_STK_UData', 0, (0xdead, 0xbeef, 0, 0), tid=2))
    # the END record's first word is not the sampler's action mask (the kernel logs other flags there): here its complement
    evs.append(E.ev('PERF_Event', 2, (flags ^ 0xf, 0, 0, 0)))
    try:
        out = run(evs)
        pe = [t for t in out if type(t).__name__ == 'PerfEvent' and t.ktraces[0].func_qualifier == 1]
        if len(pe) != 1:
            return ('sampler-trace-count', {'n': len(pe)})
        t = pe[0]
        str(t)
    except Exception as ex:
        return ('sampler-raised:' + type(ex).__name__, {'error': repr(ex)[:200]})
    own = [e for e in evs if e.tid == 1]
    if len(t.ktraces) != len(own):
        return ('composite-window-incomplete', {'kind': 'sampler', 'got': len(t.ktraces), 'expected': len(own)})
    want_info = bool(flags & 0x1) and 'T' in items
    if (t.th_info is not None) != want_info:
        return ('sampler-thread-info-presence', {'flags': hex(flags), 'items': list(items), 'has': t.th_info is not None})
    if want_info and (t.th_info.pid, t.th_info.tid) != (55, 1):
        return ('sampler-thread-info-content', {'got': repr(t.th_info)[:200]})
    want_stack = bool(flags & 0x8) and 'H' in items
    if (t.cs_frames is not None) != want_stack:
        return ('sampler-user-stack-presence', {'flags': hex(flags), 'items': list(items), 'has': t.cs_frames is not None})
    if want_stack and list(t.cs_frames) != words[:nframes]:
        return ('sampler-user-stack-frames', {'got': [hex(x) for x in t.cs_frames], 'exp': [hex(x) for x in words[:nframes]]})
    return None


def judge_sampler_pair(flags1, items1, flags2, items2):
    """two sampler windows one after the other on the same thread and parser: the second must be judged on ITS window only."""
    def window(flags, items, base):
        evs = [E.ev('PERF_Event', 1, (flags, 7, 0, 0))]
        words = []
        for i, it in enumerate(items):
            if it == 'T':
                evs.append(E.ev('PERF_THD_Data', 0, (55 + base, 1, 0x66, 1)))
            elif it == 'H':
                evs.append(E.ev('PERF_STK_UHdr', 0, (1, 3, 0, 0)))
            elif it in ('D1', 'D2'):
                w = tuple(base * 0x100000 + 0x1000 * (i + 1) + j for j in range(4))
                words += list(w)
                evs.append(E.ev('PERF_STK_UData', 0, w))
            elif it == 'W':
                evs.append(E.ev('MACH_WAIT', 0, (0x10, 0, 0, 0)))
        evs.append(E.ev('PERF_Event', 2, (flags ^ 0xf, 0, 0, 0)))
        return evs, words
    e1, w1 = window(flags1, items1, 1)
    e2, w2 = window(flags2, items2, 2)
    try:
        out = run(e1 + e2)
        pe = [t for t in out if type(t).__name__ == 'PerfEvent' and t.ktraces[0].func_qualifier == 1]
        if len(pe) != 2:
            return ('sampler-trace-count', {'n': len(pe)})
        t = pe[1]
        str(t)
    except Exception as ex:
        return ('sampler-raised:' + type(ex).__name__, {'error': repr(ex)[:200]})
    want_info = bool(flags2 & 0x1) and 'T' in items2
    if (t.th_info is not None) != want_info or (want_info and t.th_info.pid != 57):
        return ('sampler-thread-info-from-another-window', {'second_window': list(items2), 'flags': hex(flags2), 'got': repr(t.th_info)[:120]})
    want_stack = bool(flags2 & 0x8) and 'H' in items2
    if (t.cs_frames is not None) != want_stack or (t.cs_flags is not None) != want_stack:
        return ('sampler-user-stack-from-another-window', {'first_window': list(items1), 'second_window': list(items2), 'flags': hex(flags2),
                                                           'frames': repr(t.cs_frames), 'cs_flags': repr(t.cs_flags)})
    if want_stack and list(t.cs_frames) != w2[:3]:
        return ('sampler-user-stack-frames', {'got': [hex(x) for x in t.cs_frames], 'exp': [hex(x) for x in w2[:3]]})
    return None


def judge_fault_pair(first, second):
    """two page-fault windows one after the other on the same thread and parser; the second is judged on ITS window only."""
    def win(nested, base):
        return [E.ev('MACH_vmfault', 1, (0xaaaa, 0xb000 + base, 1, 0))] + [nested_event(k, base + i, prot=(1 if base else 6)) for i, k in enumerate(nested)] + \
               [E.ev('MACH_vmfault', 2, (0, 0, 0, 2))]
    PID_BASE[0] = 100
    evs = win(first, 0) + win(second, 40)
    try:
        out = run(evs)
        vm = [t for t in out if type(t).__name__ == 'MachVmfault']
        if len(vm) != 2:
            return ('vmfault-trace-count', {'n': len(vm)})
        txt = str(vm[1])
    except Exception as ex:
        return ('vmfault-raised:' + type(ex).__name__, {'error': repr(ex)[:200]})
    pm = re.search(r'vm_prot: ([A-Z_ |]*), pid: (\d+)', txt)
    real = [(i, k) for i, k in enumerate(second) if k.startswith('RealFault')]
    decoded = [(i, k) for i, k in real if k in DECODED_KINDS]
    if pm and not (decoded and any(int(pm.group(2)) == 140 + i for i, k in decoded)):
        return ('vmfault-pid-from-another-window', {'text': txt, 'first_window': list(first), 'second_window': list(second)})
    if not pm and real and real[0][1] in DECODED_KINDS:
        return ('vmfault-pid-omitted-despite-nested-record', {'text': txt, 'nested': list(second)})
    return None


COMPOSITES = {
    'vmfault': lambda inner: [E.ev('MACH_vmfault', 1, (0xaaaa, 0xbbbb, 1, 0))] + inner[0] + [nested_event('RealFaultAddressInternal', 0)] + inner[1] +
                             [E.ev('MACH_vmfault', 2, (0, 0, 0, 2))] + inner[2],
    'launch': lambda inner: [E.ev('DBG_DYLD_TIMING_LAUNCH_EXECUTABLE', 1, (0, 0x4000, 0, 0))] + inner[0] + [launch_event('a1', 0)] + inner[1] +
                            [E.ev('DBG_DYLD_TIMING_LAUNCH_EXECUTABLE', 2, (0, 0, 0, 0))] + inner[2],
    'sampler': lambda inner: [E.ev('PERF_Event', 1, (9, 7, 0, 0))] + inner[0] + [E.ev('PERF_THD_Data', 0, (55, 1, 0x66, 1)), E.ev('PERF_STK_UHdr', 0, (1, 2, 0, 0)),
                             E.ev('PERF_STK_UData', 0, (0x10, 0x20, 0, 0))] + inner[1] + [E.ev('PERF_Event', 2, (9, 0, 0, 0))] + inner[2],
}


def judge_crossing(kind, shape):
    """an unrelated call on the same thread overlaps the composite window: nested inside it, started inside and ended after it
    (crossing), started before and ended inside. The composite must still be produced from its own window."""
    S, En = E.ev('BSC_getuid', 1, (1, 2, 3, 4)), E.ev('BSC_getuid', 2, (0, 7, 0, 0))
    if shape == 'stale-composite-start':
        # an earlier window of the SAME composite whose END was lost (other START words, its own nested records)
        stale = {'vmfault': [E.ev('MACH_vmfault', 1, (0xdddd, 0xeeee, 0, 0)), nested_event('RealFaultAddressExternal', 7)],
                 'launch': [E.ev('DBG_DYLD_TIMING_LAUNCH_EXECUTABLE', 1, (0, 0x9000, 0, 0)), launch_event('a2', 5)],
                 'sampler': [E.ev('PERF_Event', 1, (9, 3, 0, 0)), E.ev('PERF_STK_UHdr', 0, (1, 4, 0, 0)), E.ev('PERF_STK_UData', 0, (0x70, 0x80, 0x90, 0xa0))]}[kind]
        evs = stale + COMPOSITES[kind](([], [], []))
    elif shape == 'started-before':
        evs = [S] + COMPOSITES[kind](([], [En], []))
    else:
        inner = {'nested': ([S], [En], []), 'crossing': ([S], [], [En]), 'crossing-late-start': ([], [S], [En]), 'none': ([], [], [])}[shape]
        evs = COMPOSITES[kind](inner)
    try:
        out = run(evs)
        names = {'vmfault': 'MachVmfault', 'launch': 'DyldLaunchExecutable', 'sampler': 'PerfEvent'}
        comp = [t for t in out if type(t).__name__ == names[kind] and t.ktraces[0].func_qualifier == 1]
        if kind == 'vmfault' and comp and ('addr: 0xbbbb' not in str(comp[0])):
            return ('composite-content-wrong-with-overlapping-call', {'text': str(comp[0])})
        if kind == 'launch' and comp and comp[0].main_executable_mh != 0x4000:
            return ('composite-content-wrong-with-overlapping-call', {'text': str(comp[0])})
        if kind == 'sampler' and comp and comp[0].actionid != 7:
            return ('composite-content-wrong-with-overlapping-call', {'text': str(comp[0])})
        if len(comp) != 1:
            return ('composite-not-produced-with-overlapping-call', {'kind': kind, 'shape': shape, 'n': len(comp), 'traces': [type(t).__name__ for t in out]})
        t = comp[0]
        txt = str(t)
        if kind == 'vmfault' and 'pid: 100' not in txt:
            return ('composite-content-wrong-with-overlapping-call', {'text': txt})
        if kind == 'launch' and [x.load_addr for x in t.uuid_map_a] != [0x1000]:
            return ('composite-content-wrong-with-overlapping-call', {'text': txt, 'list': repr(t.uuid_map_a)[:200]})
        if kind == 'sampler' and (t.th_info is None or list(t.cs_frames or []) != [0x10, 0x20]):
            return ('composite-content-wrong-with-overlapping-call', {'text': txt})
    except Exception as ex:
        return ('composite-raised-with-overlapping-call:' + type(ex).__name__, {'error': repr(ex)[:200]})
    return None


class C20(Check):
    pid = 'C20'
    level = 'model_checking'
    rule = ('page-fault windows: all nested sequences of <=3 (thorough <=4) over {Internal, External, SharedCache real-fault records, the undecoded '
            'Purgeable kind, unrelated decodable NONE, known-undecoded, unknown} x END result {0,1,5} x END fault type (all 11) with '
            'one protection byte (END result {0,5}, type 2 also on parsers whose decoder table has one of the three kinds withdrawn or the Purgeable kind taught - which kinds the tool decodes is the table of the parser that is fed), plus all 256 protection bytes on a 1-record window with pid 100 and with pid 0; launch windows: all nested sequences of <=4 (thorough <=5) '
            'over {map_a@0x1000, map_a@0x2000 (two distinct), shared_cache_a@0x1800, shared_cache_a@0x2000, map_b, unrelated}; '
            'sampler windows: every subset of flags {TH_INFO, KSTACK, USTACK, other} x all sequences of <=4 (quick) / <=6 '
            '(thorough) over {THD_Data, UHdr, UData, UData, unrelated, other thread\'s UData} without repetition x header frame '
            'count {0,3,4,5,9}; PAIRS of sampler windows one after the other on the same thread and parser (3 x 7 x 4 x 7) - the second '
            'judged on its own window only (likewise pairs of page-fault windows); every composite\'s event list holds its whole window; each composite with an unrelated call of the same thread nested in it, crossing its end, '
            'started inside, started before; each composite preceded by an unfinished window of the same composite. Oracle transcribed from the statement. states = distinct window shapes; transitions = feeds; '
            'non-trivial = window with >=2 nested records.')
    assumptions = ('leniency: first nested real-fault record of the undecoded kind: only "does not raise and omits or uses a later '
                   'decoded record" is demanded; for a failed fault (result != 0) the fault type and pid/protection may be omitted, as the pinned tree does (if shown they are the END record s and the nested record s)',
                   'launch list order among equal load addresses is not judged')

    def bounds(self):
        q = self.tier == 'quick'
        return {'vmfault_nested_len': 3 if q else 4, 'launch_nested_len': 4 if q else 5, 'sampler_items': 4 if q else 6}

    def shards(self):
        out = [('vm', ch) for ch in chunked(list(seqs(NESTED_KINDS, 3 if self.tier == 'quick' else 4)), 16 if self.tier == 'quick' else 64)]
        out.append(('vmprot',))
        out += [('launch', ch) for ch in chunked(list(seqs(LAUNCH_KINDS, 4 if self.tier == 'quick' else 5)), 16 if self.tier == 'quick' else 64)]
        L = 4 if self.tier == 'quick' else 6
        perms = [p for n in range(L + 1) for p in itertools.permutations(SAMPLE_ITEMS, n)]
        out += [('sampler', ch) for ch in chunked(perms, 16)]
        out.append(('pairs',))
        out.append(('crossing',))
        return out

    def run_shard(self, desc, acc):
        kind = desc[0]
        if kind == 'vm':
            for nested in desc[1]:
                for result in (0, 1, 5):
                    for ftype in range(1, 12):
                        bad = judge_vmfault(nested, result, ftype, 3)
                        acc.case(nontrivial=len(nested) >= 2, transitions=len(nested) + 2, state=h64(('vm', nested)),
                                 outcome=h64(('vm', nested, result == 0)))
                        if bad:
                            acc.violation(bad[0], {'kind': 'vm', 'nested': list(nested), 'result': result, 'ftype': ftype, 'prot': 3}, bad[1])
                        if ftype == 2 and result == 0 and len(nested) >= 2:
                            STAMPS[0] = 'down'
                            try:
                                bad = judge_vmfault(nested, result, ftype, 3)
                            finally:
                                STAMPS[0] = 'up'
                            acc.case(nontrivial=True, transitions=len(nested) + 2, state=h64(('vm', nested, 'down')), outcome=h64(('vm', nested, 'down')))
                            if bad:
                                acc.violation(bad[0] + '@decreasing-timestamps', {'kind': 'vm', 'nested': list(nested), 'result': result, 'ftype': ftype, 'prot': 3, 'stamps': 'down'}, bad[1])
                        if ftype == 2 and result in (0, 5):
                            for table in TABLES[1:]:
                                bad = judge_vmfault(nested, result, ftype, 3, table=table)
                                acc.case(nontrivial=len(nested) >= 2, transitions=len(nested) + 2, state=h64(('vm', nested, table)),
                                         outcome=h64(('vm', nested, result == 0, table)))
                                if bad:
                                    acc.violation(bad[0] + '@other-decoder-table', {'kind': 'vm', 'nested': list(nested), 'result': result, 'ftype': ftype, 'prot': 3, 'table': table}, bad[1])
                        elif acc.want_sample() and len(nested) == 3 and result == 0:
                            acc.sample({'vmfault_nested': list(nested), 'result': result, 'fault_type': ftype})
        elif kind == 'vmprot':
            for prot in range(256):
                for k in DECODED_KINDS:
                    # the kernel task has pid 0: a nested record with pid 0 (and any protection, 0 included) is a record
                    bad0 = judge_vmfault((k,), 0, 2, prot, pid_base=0)
                    acc.case(nontrivial=True, transitions=3, state=h64(('vmprot0', k)), outcome=h64(('prot0', prot)))
                    if bad0:
                        acc.violation(bad0[0], {'kind': 'vm', 'nested': [k], 'result': 0, 'ftype': 2, 'prot': prot, 'pid_base': 0}, bad0[1])
                    bad = judge_vmfault((k,), 0, 2, prot)
                    acc.case(nontrivial=True, transitions=3, state=h64(('vmprot', k)), outcome=h64(('prot', prot)))
                    if bad:
                        acc.violation(bad[0], {'kind': 'vm', 'nested': [k], 'result': 0, 'ftype': 2, 'prot': prot}, bad[1])
        elif kind == 'launch':
            for nested in desc[1]:
                bad = judge_launch(nested)
                acc.case(nontrivial=len(nested) >= 2, transitions=len(nested) + 2, state=h64(('la', nested)),
                         outcome=h64(('la', sum(1 for k in nested if k[0] in 'as'))))
                if bad:
                    acc.violation(bad[0], {'kind': 'launch', 'nested': list(nested)}, bad[1])
                if len(nested) <= 3:
                    for codes in ('alias-added', 'alias-used'):
                        CODES[0] = codes
                        try:
                            bad = judge_launch(nested)
                        finally:
                            CODES[0] = 'stock'
                        acc.case(nontrivial=len(nested) >= 2, transitions=len(nested) + 2, state=h64(('la', nested, codes)), outcome=h64(('la', codes)))
                        if bad:
                            acc.violation(bad[0] + '@table-with-two-ids-per-name', {'kind': 'launch', 'nested': list(nested), 'codes': codes}, bad[1])
        elif kind == 'pairs':
            wins = [(), ('H',), ('T',), ('H', 'D1'), ('T', 'H', 'D1', 'D2'), ('D1',), ('W', 'D1')]
            for f1, i1, f2, i2 in itertools.product((0x9, 0x1, 0x0), wins, (0x9, 0x8, 0x1, 0x0), wins):
                bad = judge_sampler_pair(f1, i1, f2, i2)
                acc.case(nontrivial=True, transitions=len(i1) + len(i2) + 4, state=h64(('pair', i1, i2)), outcome=h64(('pair', f1, i1, f2, i2)))
                if bad:
                    acc.violation(bad[0], {'kind': 'pair', 'f1': f1, 'i1': list(i1), 'f2': f2, 'i2': list(i2)}, bad[1])
            fw = [(), ('RealFaultAddressInternal',), ('RealFaultAddressPurgeable',), ('W',), ('RealFaultAddressExternal', 'K'), ('RealFaultAddressPurgeable', 'RealFaultAddressSharedCache')]
            for a, b in itertools.product(fw, repeat=2):
                bad = judge_fault_pair(a, b)
                acc.case(nontrivial=True, transitions=len(a) + len(b) + 4, state=h64(('fpair', a, b)), outcome=h64(('fpair', a, b)))
                if bad:
                    acc.violation(bad[0], {'kind': 'fpair', 'first': list(a), 'second': list(b)}, bad[1])
        elif kind == 'crossing':
            for k in COMPOSITES:
                for shape in ('none', 'nested', 'crossing', 'crossing-late-start', 'started-before', 'stale-composite-start'):
                    bad = judge_crossing(k, shape)
                    acc.case(nontrivial=shape != 'none', transitions=8, state=h64(('cross', k, shape)), outcome=h64(('cross', k, shape)))
                    if bad:
                        acc.violation(bad[0], {'kind': 'crossing', 'composite': k, 'shape': shape}, bad[1])
        else:
            for items in desc[1]:
                for flags in (0x0, 0x1, 0x4, 0x8, 0x9, 0xc, 0xd, 0x5, 0x10, 0x19):
                    for nframes in (0, 3, 4, 5, 9):
                        if 'H' not in items and nframes != 3:
                            continue
                        for hflags in ((1, 0, 0x104) if 'H' in items and flags in (0x8, 0x9) and nframes in (0, 3) else (1,)):
                            bad = judge_sampler(flags, items, nframes, hflags)
                            acc.case(nontrivial=len(items) >= 2, transitions=len(items) + 2, state=h64(('sa', items)),
                                     outcome=h64(('sa', flags, 'T' in items, 'H' in items)))
                            if bad:
                                acc.violation(bad[0], {'kind': 'sampler', 'flags': flags, 'items': list(items), 'nframes': nframes, 'hflags': hflags}, bad[1])
                            if flags in (0x9, 0x8) and nframes == 3 and hflags == 1:
                                for tail in ((0xffff, 0x4), (0x5, 0xffffffff), (2 ** 63, 0x1)):
                                    START_TAIL[0] = tail
                                    try:
                                        bad = judge_sampler(flags, items, nframes, hflags)
                                    finally:
                                        START_TAIL[0] = (0, 0)
                                    acc.case(nontrivial=len(items) >= 2, transitions=len(items) + 2, state=h64(('sa', items, tail)), outcome=h64(('sa', flags, tail)))
                                    if bad:
                                        acc.violation(bad[0] + '@other-words-of-the-START-record', {'kind': 'sampler', 'flags': flags, 'items': list(items), 'nframes': nframes, 'hflags': hflags, 'start_tail': list(tail)}, bad[1])
                            if flags in (0x9, 0x8, 0x1) and nframes == 3 and hflags == 1:
                                NESTED_Q[0] = 3
                                try:
                                    bad = judge_sampler(flags, items, nframes, hflags)
                                finally:
                                    NESTED_Q[0] = 0
                                acc.case(nontrivial=len(items) >= 2, transitions=len(items) + 2, state=h64(('sa', items, 'q3')), outcome=h64(('sa', flags, 'q3')))
                                if bad:
                                    acc.violation(bad[0] + '@nested-records-with-the-ALL-qualifier', {'kind': 'sampler', 'flags': flags, 'items': list(items), 'nframes': nframes, 'hflags': hflags, 'nested_q': 3}, bad[1])
                            if flags in (0x9, 0x1) and nframes == 3 and hflags == 1:
                                for codes in ('alias-added', 'alias-used'):
                                    CODES[0] = codes
                                    try:
                                        bad = judge_sampler(flags, items, nframes, hflags)
                                    finally:
                                        CODES[0] = 'stock'
                                    acc.case(nontrivial=len(items) >= 2, transitions=len(items) + 2, state=h64(('sa', items, codes)), outcome=h64(('sa', flags, codes)))
                                    if bad:
                                        acc.violation(bad[0] + '@table-with-two-ids-per-name', {'kind': 'sampler', 'flags': flags, 'items': list(items), 'nframes': nframes, 'hflags': hflags, 'codes': codes}, bad[1])
                        if not bad and acc.want_sample() and len(items) == 4 and flags == 0x9:
                            acc.sample({'sampler_flags': hex(flags), 'window': list(items), 'header_frames': nframes})

    def replay(self, case):
        STAMPS[0] = case.get('stamps', 'up')
        CODES[0] = case.get('codes', 'stock')
        START_TAIL[0] = tuple(case.get('start_tail', (0, 0)))
        NESTED_Q[0] = case.get('nested_q', 0)
        try:
            return self._replay(case)
        finally:
            STAMPS[0], CODES[0], START_TAIL[0], NESTED_Q[0] = 'up', 'stock', (0, 0), 0

    def _replay(self, case):
        k = case['kind']
        if k == 'vm':
            bad = judge_vmfault(tuple(case['nested']), case['result'], case['ftype'], case['prot'], case.get('pid_base', 100), case.get('table', 'stock'))
        elif k == 'launch':
            bad = judge_launch(tuple(case['nested']))
        elif k == 'fpair':
            bad = judge_fault_pair(tuple(case['first']), tuple(case['second']))
        elif k == 'pair':
            bad = judge_sampler_pair(case['f1'], tuple(case['i1']), case['f2'], tuple(case['i2']))
        elif k == 'crossing':
            bad = judge_crossing(case['composite'], case['shape'])
        else:
            bad = judge_sampler(case['flags'], tuple(case['items']), case['nframes'], case.get('hflags', 1))
        return [bad] if bad else []


if __name__ == '__main__':
    main(C20)
