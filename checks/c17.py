"""C17 — every registered decoder is reachable; X and X_nocancel decode alike.

Complete enumeration of the decoder tables against the bundled code table (parsed independently), and for every
X / X_nocancel twin pair the product of START/END tuples x lookups."""
import itertools
import os

from mc.run import Check, main, h64, REPO
from mc import ev as E
from mc import domains as D
from mc.ref import ref_trace_codes
from mc.callstyle import split_call
from mc.space import chunked
from checks.c09 import word_domains, lookups
from checks.c09 import ENDS as ENDS09

# END tuples: success, failure, other values, and error words that are -1 as a C int / as a 64-bit word (ERESTART), EJUSTRETURN (-2)
ENDS = list(ENDS09) + [((1 << 64) - 1, 0, 0, 0), (0xffffffff, 0, 0, 0), ((1 << 64) - 2, 0x55, 0, 0)]
from pykdebugparser.traces_parser import TracesParser
from pykdebugparser.trace_handlers import bsd, dyld, fsystem, mach, perf, trace, turnstile

FAMILIES = {'bsd': bsd, 'dyld': dyld, 'fsystem': fsystem, 'mach': mach, 'perf': perf, 'trace': trace, 'turnstile': turnstile}


def registered():
    return TracesParser({}, {}, {}).handlers


def table_lines():
    with open(os.path.join(REPO, 'pykdebugparser', 'trace.codes')) as f:
        text = f.read()
    names = {}
    for line in text.splitlines():
        parts = line.split()
        if len(parts) >= 2:
            names.setdefault(parts[1], []).append(int(parts[0], 16))
    return names, ref_trace_codes(text)


def render(name, s, e, nlook):
    p = TracesParser(E.codes(), {}, {})
    look = lookups(nlook)
    if nlook:
        # paths that contain the call's own name (with and without the suffix)
        short = name[4:].replace('sys_', '').replace('_nocancel', '')
        from mc import build as B
        look = []
        for i in range(nlook):
            look += [E.ev('VFS_LOOKUP', q, data=d) for d, q in B.lookup_chunks(0x90 + i, f'/usr/{short}/lib{short}_nocancel.{i}')]
    related = []
    if nlook:
        base = name[:-len('_nocancel')] if name.endswith('_nocancel') else name
        tc = E.codes()
        for code, nm in tc.items():
            if nm.startswith(base) and nm not in (base, base + '_nocancel') and (code & 3) == 0:
                related.append(E.ev(code, 0, (0x1_0000_4000, 0x2_0000_0001, 0x7fff_ffff_ffff, 9)))
    evs = [E.ev(name, 1, s)] + look + related + [E.ev(name, 2, e)]
    out = [t for t in p.feed_generator(E.restamp(evs)) if t.ktraces[0].eventid == evs[0].eventid]
    return [E.stable_str(t) for t in out]        # rendered twice: the text of a trace object does not change between two uses


def judge_twin(base, s, e, nlook):
    nc = base + '_nocancel'
    try:
        a = render(base, s, e, nlook)
    except Exception as ex:
        a = ['RAISED ' + type(ex).__name__]
    try:
        b = render(nc, s, e, nlook)
    except Exception as ex:
        b = ['RAISED ' + type(ex).__name__]
    if len(a) != 1 or len(b) != 1:
        return ('twin-trace-count', {'base': a, 'nocancel': b})
    sa, sb = split_call(a[0]), split_call(b[0])
    if sa is None or sb is None:
        if a[0].replace(base[4:], nc[4:]) != b[0] and a != b:
            return ('twin-renderings-differ', {'base': a[0], 'nocancel': b[0]})
        return None
    if sb[0] != sa[0] + '_nocancel' or sa[1] != sb[1] or sa[2] != sb[2]:
        return ('twin-renderings-differ', {'base': a[0], 'nocancel': b[0]})
    return None


def judge_twin_after_failure(base, fail_on):
    """ONE parser: first a window of X / X_nocancel / both whose enum-valued START word is not a declared member (decoding it
    fails; the caller catches that), then an ordinary window of X and one of X_nocancel: both must render as on a fresh parser."""
    nc = base + '_nocancel'
    fail_on, _, how = fail_on.partition(':')
    en = {k: v for k, v in D.enums(base, 'se').items() if k[0] == 's'}
    if not en and how != 'utf8':
        return 'skipped'
    s, e = D.in_domain(base, 'se', (0x1111, 0x2222, 0x3333, 0x4444), (0, 0x55, 0x66, 0x77), 1)
    bad_s = list(s)
    if how != 'utf8':
        for k, spec in en.items():
            v = 0x7fff3
            while v in spec['values']:
                v += 1
            bad_s[int(k[1])] = v
    p = TracesParser(E.codes(), {}, {})
    ts = [0]

    def feed(name, sw, ew, inner=()):
        out = []
        for ev in (E.ev(name, 1, sw),) + tuple(inner) + (E.ev(name, 2, ew),):
            ts[0] += 1
            try:
                r = p.feed(ev._replace(timestamp=ts[0]))
            except Exception:
                if not inner:
                    raise
                continue
            if r is not None and r.ktraces[0].eventid == E.n2i(name):
                out.append(str(r))
        return out
    # how == 'utf8': the window holds a path record whose bytes are not text (decoding the path fails wherever it is read)
    inner = (E.ev('VFS_LOOKUP', 3, data=(0x99).to_bytes(8, 'little') + b'\x82\xff\xfe'.ljust(24, b'\0')),) if how == 'utf8' else ()
    for nm in {'base': (base,), 'nocancel': (nc,), 'both': (base, nc)}[fail_on]:
        try:
            feed(nm, tuple(bad_s), e, inner)
        except Exception:
            pass
    try:
        a, b = feed(base, s, e), feed(nc, s, e)
    except Exception as ex:
        return ('twin-raised-after-an-undecodable-window:' + type(ex).__name__, {'error': repr(ex)[:200]})
    try:
        fa, fb = render(base, s, e, 0), render(nc, s, e, 0)
    except Exception as ex:
        return ('twin-rendering-raised:' + type(ex).__name__, {'error': repr(ex)[:200]})
    if a != fa or b != fb:
        return ('twin-rendering-changes-after-an-undecodable-window', {'base': a, 'nocancel': b, 'fresh_base': fa, 'fresh_nocancel': fb, 'failed_first': fail_on})
    return None


def judge_facade_twins(base, order, path_len=0):
    """one PyKdebugParser prints X and X_nocancel with byte-identical START/END tuples (order: which comes first); path_len > 0: a
    looked-up path of that many characters sits in both windows."""
    import io
    from mc import build as B
    from pykdebugparser.pykdebugparser import PyKdebugParser
    nc = base + '_nocancel'
    s, e = D.in_domain(base, 'se', (0x1111, 0x2222, 0x3333, 0x4444), (0, 0x55, 0x66, 0x77), 1)
    names = [base, nc] if order == 0 else [nc, base]
    recs = []
    look = []
    if path_len:
        text = ('/' + 'directory' * 3) * (path_len // 28 + 1)
        look = [(d, q) for d, q in B.lookup_chunks(0x90, text[:path_len])]
    for i, n in enumerate(names + names):
        recs += [B.rec(100 * i + 1, s, 1, E.n2i(n) | 1)] + [B.rec(100 * i + 2 + j, tid=1, debugid=E.n2i('VFS_LOOKUP') | q, data=d) for j, (d, q) in enumerate(look)] + \
                [B.rec(100 * i + 90, e, 1, E.n2i(n) | 2)]
    f = PyKdebugParser()
    f.color = False
    f.show_timestamp = False
    try:
        lines = list(f.formatted_traces(io.BytesIO(B.v2([(1, 10, 'p')], 0, recs)), dict(E.codes())))
    except Exception as ex:
        return ('twin-facade-raised:' + type(ex).__name__, {'error': repr(ex)[:200]})
    if path_len:
        lines = [ln for ln in lines if not ln[34:].startswith('lookup(')]
    if len(lines) != 4:
        return ('twin-trace-count', {'lines': lines})
    by = {}
    for n, l in zip(names + names, lines):
        by.setdefault(n, []).append(l)
    if by[base][0] != by[base][1] or by[nc][0] != by[nc][1]:
        return ('twin-line-depends-on-what-was-printed-before', {'lines': lines})
    a, b = by[base][0], by[nc][0]
    body_a, body_b = a[34:], b[34:]
    if path_len:
        # texts this long are compared as they are: the twin's line is the base's line with the longer call name
        short = base[4:].replace('sys_', '')
        if body_b != body_a.replace(short + '(', short + '_nocancel(', 1):
            return ('twin-renderings-differ-through-facade:long-path', {'path_len': path_len, 'base_len': len(body_a), 'nocancel_len': len(body_b), 'base_tail': body_a[-40:], 'nocancel_tail': body_b[-40:]})
        return None
    ca, cb = split_call(body_a), split_call(body_b)
    if ca is None or cb is None:
        if body_a == body_b:
            return ('twin-renderings-identical-through-facade', {'base': a, 'nocancel': b})
        return None
    if cb[0] != ca[0] + '_nocancel' or ca[1:] != cb[1:]:
        return ('twin-renderings-differ-through-facade', {'base': a, 'nocancel': b})
    return None


class C17(Check):
    pid = 'C17'
    level = 'exploration'
    rule = ('complete tables: every registered decoder name (TracesParser.handlers) x the bundled code table parsed independently '
            '(name occurs; the id it is stored under in the mapping has clear qualifier bits; the name survives last-wins '
            'de-duplication of ids); per-family handler dicts pairwise disjoint; every *_nocancel entry has its base registered; '
            'for every twin pair the product of START word domains (as C09) x 6 END tuples (success, failure, other values, error words -1 as 32- and 64-bit words, -2) x {0,2} lookups: renderings equal up '
            'to the _nocancel suffix of the call name (the lookups\' paths contain the call\'s own name; every code of the table whose name starts with the base name, e.g. BSC_pread_extended_info, is nested in the window); and both twins printed twice by ONE PyKdebugParser object with byte-identical '
            'tuples, in both orders, through formatted_traces; and on ONE parser after a window of X / X_nocancel / both that cannot be decoded (enum word outside its members; path bytes that are not text): both twins render as on a fresh parser; and after each on/off setting of a facade object was flipped on ANOTHER object that listed a dump. Distinct by construction; non-trivial = twin comparison runs and table '
            'entries of decoders with a _nocancel twin.')
    assumptions = ('the bundled table is read from pykdebugparser/trace.codes of the tree under test',)

    def bounds(self):
        h = registered()
        return {'registered': len(h), 'nocancel_entries': sum(1 for n in h if n.endswith('_nocancel'))}

    def shards(self):
        h = registered()
        # names the bundled table does not know cannot be put into a stream; the 'tables' shard reports them
        known = set(E.codes().values())
        twins = sorted(n[:-len('_nocancel')] for n in h if n.endswith('_nocancel') and n in known
                       and n[:-len('_nocancel')] in known)
        return [('tables',), ('facade', twins)] + [('twins', ch) for ch in chunked(twins, 32)]

    def run_shard(self, desc, acc):
        if desc[0] == 'tables':
            h = registered()
            names, mapping = table_lines()
            inv = {}
            for k, v in mapping.items():
                inv.setdefault(v, []).append(k)
            for n in sorted(h):
                acc.case(nontrivial=True, transitions=1, outcome=h64(n))
                if n not in names:
                    acc.violation(f'decoder-name-not-in-code-table@{n}', {'kind': 'table', 'name': n}, {})
                elif n not in inv:
                    acc.violation(f'decoder-name-shadowed-in-code-table@{n}', {'kind': 'table', 'name': n},
                                  {'ids': [hex(x) for x in names[n]]})
                elif any(i & 3 for i in inv[n]):
                    acc.violation(f'decoder-id-has-qualifier-bits@{n}', {'kind': 'table', 'name': n},
                                  {'ids': [hex(x) for x in inv[n]]})
                if n.endswith('_nocancel') and n[:-len('_nocancel')] not in h:
                    acc.violation(f'nocancel-without-base@{n}', {'kind': 'table', 'name': n}, {})
            fams = {k: set(m.handlers) for k, m in FAMILIES.items()}
            for a, b in itertools.combinations(sorted(fams), 2):
                acc.case(nontrivial=True, transitions=1)
                both = fams[a] & fams[b]
                if both:
                    acc.violation('name-claimed-by-two-families', {'kind': 'table', 'name': sorted(both)[0]}, {'families': [a, b]})
            union = set().union(*fams.values())
            if union != set(h):
                acc.violation('registered-set-differs-from-families', {'kind': 'table', 'name': sorted(union ^ set(h))[0]}, {})
            missing = [n for n in D.decoder_names() if n not in h]
            acc.count('decoders_of_pinned_commit_no_longer_registered', len(missing))
            acc.sample({'registered_decoder': 'BSC_read', 'table_ids': [hex(x) for x in names.get('BSC_read', [])]})
        elif desc[0] == 'facade':
            h = registered()
            for base in desc[1]:
                if base not in h:
                    continue
                for fail_on in ('base', 'nocancel', 'both', 'base:utf8', 'nocancel:utf8', 'both:utf8'):
                    bad = judge_twin_after_failure(base, fail_on)
                    if bad == 'skipped':
                        continue
                    acc.case(nontrivial=True, transitions=6, outcome=h64((base, fail_on)))
                    if bad:
                        acc.violation(f'{bad[0]}@{base}', {'kind': 'after-failure', 'base': base, 'fail_on': fail_on}, bad[1])
                if base == desc[1][0]:
                    # every on/off setting of the facade object (whatever settings the tree under test has), flipped on ONE object that
                    # then lists a dump: objects created afterwards with default settings still render the twins alike
                    import io
                    from mc import build as B
                    from pykdebugparser.pykdebugparser import PyKdebugParser
                    s_, e_ = D.in_domain(base, 'se', (0x1111, 0x2222, 0x3333, 0x4444), (0, 0x55, 0x66, 0x77), 1)
                    blob = B.v2([(1, 10, 'p')], 0, [B.rec(1, s_, 1, E.n2i(base) | 1), B.rec(2, e_, 1, E.n2i(base) | 2),
                                                   B.rec(3, s_, 1, E.n2i(base + '_nocancel') | 1), B.rec(4, e_, 1, E.n2i(base + '_nocancel') | 2)])
                    for attr, val in sorted(vars(PyKdebugParser()).items()):
                        if not isinstance(val, bool):
                            continue
                        try:
                            other = PyKdebugParser()
                            setattr(other, attr, not val)
                            list(other.formatted_traces(io.BytesIO(blob), dict(E.codes())))
                        except Exception:
                            pass
                        bad = judge_facade_twins(base, 0)
                        acc.case(nontrivial=True, transitions=12, outcome=h64(('setting', attr)))
                        if bad:
                            acc.violation(f'{bad[0]}:after-another-object-was-configured@{base}', {'kind': 'facade', 'base': base, 'order': 0, 'setting': attr}, bad[1])
                            break
                if base == desc[1][0] or base == desc[1][-1]:
                    # the embedding application's logging configuration is not an option of the tool: root logger at DEBUG
                    import logging
                    root = logging.getLogger()
                    saved_level, saved_disable = root.level, logging.root.manager.disable
                    handler = logging.NullHandler()
                    root.addHandler(handler)
                    try:
                        root.setLevel(logging.DEBUG)
                        logging.disable(logging.NOTSET)
                        bad = judge_facade_twins(base, 0)
                    finally:
                        root.setLevel(saved_level)
                        logging.disable(saved_disable)
                        root.removeHandler(handler)
                    acc.case(nontrivial=True, transitions=8, outcome=h64(('logging', base)))
                    if bad:
                        acc.violation(f'{bad[0]}:root-logger-at-DEBUG@{base}', {'kind': 'facade-logging', 'base': base}, bad[1])
                for order in (0, 1):
                    bad = judge_facade_twins(base, order)
                    acc.case(nontrivial=True, transitions=8, outcome=h64((base, order)))
                    if bad:
                        acc.violation(f'{bad[0]}@{base}', {'kind': 'facade', 'base': base, 'order': order}, bad[1])
                # looked-up paths of 180 .. 1023 characters (whatever the tool does with a long line, it does it to both twins alike)
                for path_len in (180, 990, 995, 1000, 1010, 1023):
                    bad = judge_facade_twins(base, 0, path_len)
                    acc.case(nontrivial=True, transitions=8 + path_len // 16, outcome=h64((base, 'long', path_len)))
                    if bad:
                        acc.violation(f'{bad[0]}@{base}', {'kind': 'facade', 'base': base, 'order': 0, 'path_len': path_len}, bad[1])
                        break
        else:
            h = registered()
            for base in desc[1]:
                if base not in h:
                    continue
                doms = word_domains(base, self.tier)
                # plus: every enum-valued START word outside its table (the twins decode - or refuse - such a call ALIKE)
                outside = []
                en = {k: v for k, v in D.enums(base, 'se').items() if k[0] == 's'}
                if en:
                    o = [d[0] for d in doms]
                    for k in en:
                        o[int(k[1])] = 0x7fff3
                    outside = [tuple(o)]
                for s in list(itertools.product(*doms)) + outside:
                    for e in ENDS:
                        _, e2 = D.in_domain(base, 'se', s, e, 1)
                        for nlook in ((0, 2) if s == tuple(d[0] for d in doms) or self.tier == 'thorough' else (0,)):
                            bad = judge_twin(base, s, e2, nlook)
                            acc.case(nontrivial=True, transitions=4 + 4 * nlook, outcome=h64(base))
                            if bad:
                                acc.violation(f'{bad[0]}@{base}', {'kind': 'twin', 'base': base, 'start': [hex(x) for x in s],
                                                                   'end': [hex(x) for x in e2], 'lookups': nlook}, bad[1])
                            elif acc.want_sample():
                                acc.sample({'twin': base, 'start': [hex(x) for x in s]})

    def replay(self, case):
        if case['kind'] == 'facade-logging':
            import logging
            root = logging.getLogger()
            saved = root.level
            try:
                root.setLevel(logging.DEBUG)
                bad = judge_facade_twins(case['base'], 0)
            finally:
                root.setLevel(saved)
            return [(f"{bad[0]}:root-logger-at-DEBUG@{case['base']}", bad[1])] if bad else []
        if case['kind'] == 'after-failure':
            bad = judge_twin_after_failure(case['base'], case['fail_on'])
            return [(f"{bad[0]}@{case['base']}", bad[1])] if bad and bad != 'skipped' else []
        if case['kind'] == 'facade':
            bad = judge_facade_twins(case['base'], case['order'], case.get('path_len', 0))
            return [(f"{bad[0]}@{case['base']}", bad[1])] if bad else []
        if case['kind'] == 'twin':
            bad = judge_twin(case['base'], tuple(int(x, 16) for x in case['start']), tuple(int(x, 16) for x in case['end']),
                             case['lookups'])
            return [(f"{bad[0]}@{case['base']}", bad[1])] if bad else []
        acc = __import__('mc.run', fromlist=['Acc']).Acc()
        self.run_shard(('tables',), acc)
        return [(sig, v['cases'][0][1]) for sig, v in acc.violations.items() if sig.endswith('@' + str(case['name'])) or '@' not in sig]


if __name__ == '__main__':
    main(C17)
