"""C07 — missing or unexpected context never aborts the trace stream.

Omission-fault enumeration over histories: for each of the registered decoders a full-context window of individually
in-domain events is generated; every subset of it dropped, every single duplication, every single insertion of an
undecoded/unrelated record, lone START/END/NONE/ALL; the real pipeline must consume everything and render every trace."""
import io
import itertools
import traceback

from mc.run import Check, main, h64
from mc import build as B
from mc import ev as E
from mc import domains as D
from mc.space import chunked
from pykdebugparser.traces_parser import TracesParser
from pykdebugparser.pykdebugparser import PyKdebugParser

M64 = (1 << 64) - 1
WORDSETS = {
    'junk': ((0x1111, 0x2222, 0x3333, 0x4444), (0, 0x55, 0x66, 0x77)),
    'fail': ((0x1111, 0x2222, 0x3333, 0x4444), (2, 0, 0, 0)),
    'zeros': ((0, 0, 0, 0), (0, 0, 0, 0)),
    'ones': ((M64, M64, M64, M64), (M64, M64, M64, M64)),
    'small': ((1, 2, 3, 4), (0, 1, 2, 3)),
}
STR_ID = 500


def decoders():
    """names of every decoder the frozen table knows (registered at the pinned commit)."""
    return D.decoder_names()


def text_data(s):
    return s.encode().ljust(32, b'\0')


def dev(name, q, words, tid=1):
    """event for decoder `name`; text decoders get valid text bytes instead of words."""
    if name in D.TEXT_DECODERS:
        if name == 'VFS_LOOKUP':
            return E.ev(name, q, tid=tid, data=B.le(words[0], 8) + b'/tmp/x'.ljust(24, b'\0'))
        if name == 'TRACE_STRING_GLOBAL':
            return E.ev(name, q, tid=tid, data=B.le(0, 8) + B.le(words[1] or 1, 8) + b'gstr'.ljust(16, b'\0'))
        return E.ev(name, q, tid=tid, data=text_data('name'))
    return E.ev(name, q, words, tid=tid)


def lookup(vnode, path, tid=1):
    return [E.ev('VFS_LOOKUP', q, tid=tid, data=d) for d, q in B.lookup_chunks(vnode, path)]


def undecoded(kind, tid=1):
    if kind == 'T':
        return E.ev('TRACE_DATA_NEWTHREAD', 0, (0x9500, 0x96, 0, 0), tid=tid)   # kernel trace-data record with non-text bytes
    if kind == 'D':
        return E.ev('VFS_LOOKUP_DONE', 0, tid=tid, data=B.le(0x77, 8) + b'/done'.ljust(24, b'\0'))
    if kind == 'K':
        return E.ev('MACH_vm_page_release', 0, (1, 2, 3, 4), tid=tid)
    if kind == 'U':
        return E.ev(0xdead0000, 0, (1, 2, 3, 4), tid=tid)
    if kind == 'S':
        # the START of another call of the same thread whose END never arrives
        return E.ev('BSC_getppid', 1, (1, 2, 3, 4), tid=tid)
    if kind == 'X':
        return E.ev('TRACE_DATA_THREAD_TERMINATE', 0, (tid, 0, 0, 0), tid=tid)     # the thread's own terminate record
    if kind == 'L':
        return E.ev('TRACE_LOST_EVENTS', 0, (0, 0, 0, 0), tid=tid)
    if kind == 'A':
        # ANOTHER thread, which logged nothing else, announces this thread as its exec copy (word 2 of the new-thread record set)
        return E.ev('TRACE_DATA_NEWTHREAD', 0, (tid, 0x96, 1, 9), tid=tid + 100)
    return E.ev('MACH_WAIT', 0, (0x10, 0, 0, 0), tid=tid)


FAMILY = {
    'dyld': ['DBG_DYLD_TIMING_MAP_IMAGE', 'DBG_DYLD_TIMING_DLOPEN', 'DBG_DYLD_TIMING_DLOPEN_PREFLIGHT', 'DBG_DYLD_TIMING_DLSYM'],
    'tstr': {'TRACE_STRING_NEWTHREAD': 'TRACE_DATA_NEWTHREAD', 'TRACE_STRING_EXEC': 'TRACE_DATA_EXEC'},
}
REAL_FAULT_KINDS = ['RealFaultAddressInternal', 'RealFaultAddressExternal', 'RealFaultAddressSharedCache',
                    'RealFaultAddressPurgeable']


def windows(name, ws, pick):
    """yield (label, [events]) full-context windows for decoder `name`."""
    s, e = WORDSETS[ws]
    if name in FAMILY['dyld']:
        s = (s[0], STR_ID, STR_ID, s[3])
    if name == 'MACH_vmfault':
        e = (e[0], e[1], 0, e[3])   # kern return 0 so that the fault type and the nested records are read
    s, e = D.in_domain(name, 'se', s, e, pick)
    S, En = dev(name, 1, s), dev(name, 2, e)
    gen = [S] + lookup(0x71, '/' + 'a' * 23) + lookup(0x72, '/' + 'b' * 24 + '/' + 'c' * 32 + '/' + 'd' * 29) + [undecoded('K'), En]   # 24 and 88 bytes: both fill their records exactly
    yield 'generic', gen
    # the same window with looked-up paths made of characters that mean something to format(), %-formatting, str.format_map, regexes
    yield 'generic-special-path', [S] + lookup(0x71, '/{0}/{x}/%s%d/{') + lookup(0x72, '/}{}/\\n/$1/[a-/(?P<x>/{{y}}/' + '{%}' * 12) + [undecoded('K'), En]
    if name in FAMILY['dyld']:
        g = E.ev('TRACE_STRING_GLOBAL', 3, data=B.global_string_chunks(0, STR_ID, '/usr/lib/x')[0][0])
        g0 = E.ev('TRACE_STRING_GLOBAL', 3, data=B.global_string_chunks(0, STR_ID, '')[0][0])
        yield 'dyld-announced', [g, S, En]
        # the announcement split over two records with another kernel trace record of the thread in between
        ch = B.global_string_chunks(0, STR_ID, '/usr/lib/a-long-library-name.dylib')
        yield 'dyld-announced-split', [E.ev('TRACE_STRING_GLOBAL', ch[0][1], data=ch[0][0]), undecoded('T'),
                                      E.ev('TRACE_STRING_GLOBAL', ch[1][1], data=ch[1][0]), S, En]
        yield 'dyld-announced-empty', [g0, S, En]
        if name == 'DBG_DYLD_TIMING_DLOPEN':
            # a library opened under a string id nobody announced, the handle it returned closed afterwards (once, twice), the same handle
            # returned again for a library whose path IS known
            H = e[1] or 0xbeef
            En_h = dev(name, 2, (e[0], H, e[2], e[3]))
            close = [E.ev('DBG_DYLD_TIMING_DLCLOSE', 1, (H, H, 0, 0)), E.ev('DBG_DYLD_TIMING_DLCLOSE', 2, (0, 0, 0, 0))]
            yield 'dlopen-unannounced-then-dlclose', [S, En_h] + close
            yield 'dlopen-unannounced-then-dlclose-twice', [S, En_h] + close + close
            yield 'dlopen-announced-dlclose-reopen-unannounced-dlclose', [g, S, En_h] + close + [E.ev('TRACE_STRING_GLOBAL', 3, data=B.global_string_chunks(0, STR_ID + 1, '')[0][0]),
                                                                                                  dev(name, 1, (s[0], STR_ID + 2, STR_ID + 2, s[3])), En_h] + close
    if name in FAMILY['tstr']:
        dn = FAMILY['tstr'][name]
        yield 'data+string', [E.ev(dn, 0, (77, 88, 0, 0)), dev(name, 0, s)]
        yield 'data+string-other-thread', [E.ev(dn, 0, (77, 88, 0, 0), tid=2), dev(name, 0, s)]
        # the DATA half of the OTHER pair kind precedes this string (its own DATA record was lost), and both DATA kinds in either order
        other = [d for d in FAMILY['tstr'].values() if d != dn][0]
        yield 'other-pairs-data+string', [E.ev(other, 0, (77, 88, 1, 3)), dev(name, 0, s)]
        yield 'both-data+string', [E.ev(dn, 0, (77, 88, 1, 3)), E.ev(other, 0, (78, 89, 1, 3)), dev(name, 0, s)]
        yield 'both-data-reversed+string', [E.ev(other, 0, (78, 89, 1, 3)), E.ev(dn, 0, (77, 88, 1, 3)), dev(name, 0, s)]
    if name == 'MACH_vmfault':
        for k1, k2 in itertools.product(REAL_FAULT_KINDS + [None], repeat=2):
            nested = []
            for i, k in enumerate((k1, k2)):
                if k:
                    nested.append(E.ev(k, 0, (0x1000 + i, (44 << 16) | (3 << 8) | 2, 5, 6)))
            for res, ft in ((0, 1), (1, 0)):
                e2 = (e[0], e[1], res, ft)
                yield f'vmfault[{k1},{k2},res={res}]', [S] + nested + [dev(name, 2, e2)]
    if name == 'PERF_Event':
        for flags in (0x9, 0x1, 0x8, 0x0, 0xc):
            # the stack header's own flag word: valid only / every declared flag (incl. the PC-fixup one) / none
            for hflags in ((0x1, 0x1ff, 0x100, 0x0) if flags == 0x9 else (0x1,)):
                s2 = (flags, s[1], s[2], s[3])
                yield f'perf[flags={flags:#x},hdr={hflags:#x}]', [dev(name, 1, s2), E.ev('PERF_THD_Data', 0, (9, 1, 0, 4)),
                                                                 E.ev('PERF_STK_UHdr', 0, (hflags, 5, 0, 0)), E.ev('PERF_STK_UData', 0, (1, 2, 3, 4)),
                                                                 E.ev('PERF_STK_UData', 0, (5, 6, 7, 8)), dev(name, 2, e)]
    if name == 'DBG_DYLD_TIMING_LAUNCH_EXECUTABLE':
        yield 'launch', [S, E.ev('DYLD_uuid_map_a', 0, (1, 2, 0x2000, 3)), E.ev('DYLD_uuid_shared_cache_a', 0, (4, 5, 0x1000, 6)),
                         E.ev('DYLD_uuid_map_b', 0, (7, 0, 0, 0)), En]
    if name == 'DBG_DYLD_TIMING_LAUNCH_EXECUTABLE':
        # two images (and the shared cache) announced at the SAME load address (a re-mapped slot; a zeroed address word)
        yield 'launch-same-address', [S, E.ev('DYLD_uuid_map_a', 0, (1, 2, 0x2000, 3)), E.ev('DYLD_uuid_map_a', 0, (8, 9, 0x2000, 3)),
                                      E.ev('DYLD_uuid_shared_cache_a', 0, (4, 5, 0x2000, 6)), E.ev('DYLD_uuid_map_a', 0, (1, 2, 0x2000, 3)), En]
    if name == 'DBG_DYLD_TIMING_LAUNCH_EXECUTABLE':
        # images mapped AND unmapped inside the window: once, twice, at another address, an image never mapped
        m1, m2 = E.ev('DYLD_uuid_map_a', 0, (1, 2, 0x2000, 3)), E.ev('DYLD_uuid_map_a', 0, (8, 9, 0x3000, 3))
        u1, u1x = E.ev('DYLD_uuid_unmap_a', 0, (1, 2, 0x2000, 3)), E.ev('DYLD_uuid_unmap_a', 0, (1, 2, 0x5000, 3))
        yield 'launch-with-unmaps', [S, m1, u1, u1, m1, u1, m2, u1x, E.ev('DYLD_uuid_unmap_a', 0, (6, 6, 0x7000, 3)), En]
    if name == 'TRACE_DATA_THREAD_TERMINATE':
        yield 'terminate-named', [E.ev('TRACE_STRING_THREADNAME', 0, tid=s[0] & 0xffff or 1, data=text_data('thr')), dev(name, 0, s)]


def variants(label, win):
    """omission / repetition / insertion faults of one window."""
    n = len(win)
    if n <= 9:
        for keep in itertools.product((0, 1), repeat=n):
            yield ('subset', keep), [x for x, k in zip(win, keep) if k]
    else:
        for i in range(n + 1):
            yield ('drop-prefix', i), win[i:]
    if label == 'generic':
        # the call is started, another call is started (never ended), the call is started AGAIN (its first END was lost)
        yield ('reopen', 'ordinary'), [win[0], undecoded('S'), win[0]] + win[1:]
        yield ('reopen', 'trace-domain'), [win[0], E.ev('TRACE_STRING_GLOBAL', 1, data=B.global_string_chunks(0, 901, 'x' * 40)[0][0]), win[0]] + win[1:]
        # 50 lookups whose END records were lost pile up in the window (24 text bytes each, whole 3-byte characters), then a complete one
        pile = [E.ev('VFS_LOOKUP', 1, data=B.le(0x300 + k, 8) + ('\u20ac' * 8).encode()) for k in range(50)]
        yield ('piled-up-unterminated-lookups',), [win[0]] + pile + win[1:]
        for i in range(n):
            yield ('dup', i), win[:i + 1] + [win[i]] + win[i + 1:]
        for kind in ('K', 'U', 'W', 'T', 'D', 'X', 'L', 'S', 'A'):
            for i in range(n + 1):
                yield ('ins', kind, i), win[:i] + [undecoded(kind)] + win[i:]


def lone(name, ws, pick):
    s, e = WORDSETS[ws]
    s1, _ = D.in_domain(name, 'single', s, e, pick)
    for q in (0, 3):
        yield ('lone', q), [dev(name, q, s1)]
    s2, e2 = D.in_domain(name, 'se', s, e, pick)
    # many lookups (posix_spawn takes its path from the 6th-from-last lookup)
    for k in (3, 6):
        win = [dev(name, 1, s2)]
        for i in range(k):
            win += lookup(0x80 + i, f'/p{i}')
        win.append(dev(name, 2, e2))
        for i in range(len(win) + 1):
            yield ('lookups', k, 'drop-prefix', i), win[i:]


def site_of(tb):
    """innermost frame inside pykdebugparser: 'file.py:function'."""
    site = 'outside-pykdebugparser'
    for fr in traceback.extract_tb(tb):
        if '/pykdebugparser/' in fr.filename:
            site = f"{fr.filename.rsplit('/', 1)[-1]}:{fr.name}"
    return site


def run_history(events):
    """feed on a fresh parser; returns None or (sig, detail)."""
    p = TracesParser(E.codes(), {}, {})
    n = 0
    try:
        for t in p.feed_generator(E.restamp(events)):
            n += 1
            str(t)
    except Exception as ex:
        return (f'{type(ex).__name__}@{site_of(ex.__traceback__)}', {'error': repr(ex)[:200]}), n
    return None, n


def describe(events):
    tc = E.codes()
    return [f"{tc.get(e.eventid, hex(e.eventid))}:{'NSEA'[e.func_qualifier]}:tid{e.tid}:{e.data.hex()}" for e in events]


def rebuild(desc):
    out = []
    for d in desc:
        name, q, tid, data = d.split(':')
        eid = int(name, 16) if name.startswith('0x') else E.n2i(name)
        out.append(E.ev(eid, 'NSEA'.index(q), tid=int(tid[3:]), data=bytes.fromhex(data)))
    return out


class C07(Check):
    pid = 'C07'
    level = 'fault_enumeration'
    rule = ('for each registered decoder (frozen table mc/domains.json; enum-valued words take declared members, text records '
            'carry valid UTF-8): a generic full-context window [START, 1-record lookup, 3-record lookup (both filling their records exactly), undecoded record, END] (also with paths made of braces, percent signs, backslashes, regex metacharacters) '
            'and family-specific windows (dyld string announcement present/empty, DATA+STRING pairs, page fault with every '
            'ordered pair of nested real-fault kinds incl. the undecoded one, sampler windows x flag sets x stack-header flag sets, launch window, launch window with several images at one load address) x word '
            'sets {junk, failing END, zeros, all-ones, small} (quick: junk, fail, zeros) x every subset of the window dropped '
            '(<=2^9), every single duplication, every insertion of one undecoded/unrelated/kernel-trace-data/look-alike/own-thread-terminate/lost-events record or never-ended START of another call at every position, the call re-started after another call was opened inside it, 50 unterminated lookups piled up in the window, lone '
            'NONE/ALL, windows with 3 and 6 lookups with every dropped prefix; windows of 2^k-2..2^k+2 stand-alone records (k=6..13) before another call starts; every enum member in the zero-omission window (thorough: the whole fault enumeration for 4 different members of every enum-valued word). '
            'Oracle: feed_generator consumes the history and str() of every emitted trace returns. non-trivial = at least one '
            'event of the window was dropped, duplicated or inserted. Distinct by construction.')
    assumptions = ('"individually in-domain" is decided by the frozen table, not by the decoder under test',
                   'numeric words are in domain for every value; ioctl request words are Darwin _IOC encodings',
                   'signature = exception type @ innermost pykdebugparser frame (call site)')

    def wordsets(self):
        return ['junk', 'fail', 'zeros'] if self.tier == 'quick' else list(WORDSETS)

    def bounds(self):
        return {'decoders': len(decoders()), 'wordsets': self.wordsets()}

    def shards(self):
        out = [('dec', ch) for ch in chunked(decoders(), 64)]
        out.append(('facade', None))
        out += [('pow2', k) for k in range(6, 14 if self.tier == 'quick' else 16)]
        if self.tier == 'thorough':
            out += [('nest', ch) for ch in chunked(decoders(), 32)]
        return out

    def run_shard(self, desc, acc):
        kind, names = desc
        if kind == 'dec':
            for name in names:
                for ws in self.wordsets():
                    if ws == 'ones' and name in D.TEXT_DECODERS:
                        continue
                    for pick in ((1,) if self.tier == 'quick' else (0, 1, 2, -1)):
                        for label, win in windows(name, ws, pick):
                            for how, evs in variants(label, win):
                                self._one(acc, name, (ws, label, pick) + how, evs, nontrivial=len(evs) != len(win) or how[0] != 'subset')
                        for how, evs in lone(name, ws, pick):
                            self._one(acc, name, (ws, pick) + how, evs, nontrivial=True)
                # every member of every enum-valued word, complete window
                nmax = max([len(s['values']) for sh in ('se', 'single') for s in D.enums(name, sh).values()] +
                           ([len(D.IOCTL_REQUESTS)] if name == 'BSC_ioctl' else []) + [0])
                for pick in range(nmax):
                    for label, win in windows(name, 'junk', pick):
                        self._one(acc, name, ('junk', label, 'member', pick), win, nontrivial=True)
                        break
                    for how, evs in lone(name, 'junk', pick):
                        self._one(acc, name, ('junk', 'member', pick) + how, evs, nontrivial=True)
                        if how[1] == 3:
                            break
        elif kind == 'pow2':
            # exact boundaries of window length: an orphan START, n stand-alone records of the thread, then another START/END
            k = names
            for n in range(2 ** k - 2, 2 ** k + 3):
                for shape in ('orphan-start', 'closed'):
                    evs = [E.ev('BSC_read', 1, (3, 4, 5, 6))] + [undecoded('K' if i % 2 else 'W') for i in range(n)] + \
                          [E.ev('BSC_getpid', 1, (1, 2, 3, 4)), E.ev('BSC_getpid', 2, (0, 5, 0, 0))] + \
                          ([E.ev('BSC_read', 2, (0, 9, 0, 0))] if shape == 'closed' else [])
                    self._one(acc, 'BSC_read', ('pow2', n, shape), evs, nontrivial=True)
        elif kind == 'facade':
            tc = dict(E.codes())
            # unexpected context of another kind: a log section behind the events of a version-3 dump, listed with and without filters
            logs = [B.v3_block(B.TAG_LOG_STRINGS, B.bplist({'StringIndex': {'hello': 1, 'proc': 2}})),
                    B.v3_block(B.TAG_LOG_EVENTS, B.bplist({'Events': [{'cm': 1, 't': 'logEvent', 's': 1, 'tid': 1, 'ns': 5, 'mct': 6, 'b': b'B' * 16, 'piu': b'P' * 16,
                                                                      'ud': {'sec': 1600000000, 'usec': 7}, 'utz': {'mw': 0, 'dt': 0}, 'p': 2, 'pid': 10}]}))]
            recs = [B.rec(5, (1, 2, 3, 4), 1, E.n2i('BSC_getpid') | 1), B.rec(6, (0, 5, 0, 0), 1, E.n2i('BSC_getpid') | 2)]
            for setting in ({}, {'filter_class': [4]}, {'filter_subclass': [0x040c]}, {'filter_tid': 1}, {'filter_process': 'p'}):
                f = PyKdebugParser()
                for k, v in setting.items():
                    setattr(f, k, v)
                bad = None
                try:
                    lines = list(f.formatted_traces(io.BytesIO(B.v3([(1, 10, 'p')], [recs], logs)), tc))
                    if len(lines) != 1:
                        bad = ('trace-stream-cut-short-before-a-log-section', {'lines': lines, 'filters': repr(setting)})
                except Exception as ex:
                    bad = (f'{type(ex).__name__}@{site_of(ex.__traceback__)}', {'error': repr(ex)[:200], 'via': 'formatted_traces of a version-3 dump with log records', 'filters': repr(setting)})
                acc.case(nontrivial=True, transitions=3, outcome=h64(('v3-logs', repr(setting))))
                if bad:
                    acc.violation(bad[0], {'decoder': 'BSC_getpid', 'events': 'getpid START/END + a log section', 'via': 'formatted_traces'}, bad[1])
            for name in decoders():
                s, e = D.in_domain(name, 'se', *WORDSETS['junk'], 1)
                evs = [dev(name, 1, s), dev(name, 2, e), dev(name, 0, D.in_domain(name, 'single', *WORDSETS['junk'], 1)[0])]
                recs = [B.rec(i + 1, tid=x.tid, debugid=x.debugid, data=x.data) for i, x in enumerate(evs)]
                blob = B.v2([(1, 10, 'p')], 0, recs)
                f = PyKdebugParser()
                bad = None
                try:
                    lines = list(f.formatted_traces(io.BytesIO(blob), tc))
                except Exception as ex:
                    bad = (f'{type(ex).__name__}@{site_of(ex.__traceback__)}', {'error': repr(ex)[:200], 'via': 'formatted_traces'})
                acc.case(nontrivial=True, transitions=3, outcome=h64(name))
                if bad:
                    acc.violation(bad[0], {'decoder': name, 'events': describe(evs), 'via': 'formatted_traces'}, bad[1])
        else:
            outers = ['BSC_open', 'BSC_rename', 'BSC_posix_spawn', 'MACH_vmfault', 'PERF_Event',
                      'DBG_DYLD_TIMING_LAUNCH_EXECUTABLE', 'BSC_linkat', 'TRACE_STRING_THREADNAME']
            for name in names:
                inner = next(windows(name, 'junk', 1))[1]
                for o in outers:
                    so, eo = D.in_domain(o, 'se', *WORDSETS['junk'], 1)
                    if o == 'MACH_vmfault':
                        eo = (eo[0], eo[1], 0, eo[3])
                        eo = D.in_domain(o, 'se', so, eo, 1)[1]
                    outer = next(windows(o, 'junk', 1))[1]
                    self._one(acc, name, ('nest-in', o), [outer[0]] + inner + [outer[-1]], nontrivial=True)
                    self._one(acc, name, ('nest-around', o), [inner[0]] + outer + [inner[-1]], nontrivial=True)
                    self._one(acc, name, ('cross', o), [inner[0], outer[0]] + inner[1:-1] + [inner[-1], outer[-1]], nontrivial=True)

    def _one(self, acc, name, how, evs, nontrivial):
        bad, n = run_history(evs)
        acc.case(nontrivial=nontrivial, transitions=len(evs), outcome=h64((name, n)))
        if n:
            acc.count('histories_emitting_traces')
        if bad:
            acc.violation(bad[0], {'decoder': name, 'how': [str(x) for x in how], 'events': describe(evs) if len(evs) < 60 else describe(evs[:3]) + ['...']}, bad[1])
        elif nontrivial and n and acc.want_sample():
            acc.sample({'decoder': name, 'how': [str(x) for x in how], 'events': describe(evs)[:4]})

    def replay(self, case):
        if case.get('how', [''])[0] == 'pow2':
            from mc.run import Acc
            acc = Acc()
            import math
            self.run_shard(('pow2', round(math.log2(int(case['how'][1]) + 2))), acc)
            return [(sig, v['cases'][0][1]) for sig, v in acc.violations.items()]
        evs = rebuild(case['events'])
        if case.get('via') == 'formatted_traces':
            recs = [B.rec(i + 1, tid=x.tid, debugid=x.debugid, data=x.data) for i, x in enumerate(evs)]
            try:
                list(PyKdebugParser().formatted_traces(io.BytesIO(B.v2([(1, 10, 'p')], 0, recs)), dict(E.codes())))
            except Exception as ex:
                return [(f'{type(ex).__name__}@{site_of(ex.__traceback__)}', {'error': repr(ex)[:200]})]
            return []
        bad, _ = run_history(evs)
        return [bad] if bad else []


if __name__ == '__main__':
    main(C07)
