"""C14 — lines name the process the dump declares for the thread; columns compose.

All 2^6 column-switch settings x colour on/off x all event streams of <=d records over an alphabet containing map-updating
records x thread maps, through formatted_kevents / formatted_traces / formatted_callstacks / formatted_logs."""
import io
import itertools
import os
import re

from mc.run import Check, main, h64
from mc import build as B
from mc import ev as E
from mc.space import seqs, chunked
from pykdebugparser.pykdebugparser import PyKdebugParser

os.environ['FORCE_COLOR'] = '1'
os.environ.pop('NO_COLOR', None)
ANSI = re.compile(r'\x1b\[[0-9;]*m')
SW = ['show_timestamp', 'show_name', 'show_func_qual', 'show_tid', 'show_process', 'show_args']


def R(name, q, args=(0, 0, 0, 0), tid=1, ts=1, data=None):
    return B.rec(ts, args, tid, E.n2i(name) | q, data=data)


ALPHA = [
    ('getpid@1', lambda ts: [R('BSC_getpid', 1, tid=1, ts=ts), R('BSC_getpid', 2, (0, 5, 0, 0), tid=1, ts=ts + 1)]),
    ('getpid@3', lambda ts: [R('BSC_getpid', 1, tid=3, ts=ts), R('BSC_getpid', 2, (0, 5, 0, 0), tid=3, ts=ts + 1)]),
    ('newthread-data 3->10 by 1', lambda ts: [R('TRACE_DATA_NEWTHREAD', 0, (3, 10, 1, 7), tid=1, ts=ts)]),      # words 2, 3 (exec-copy flag, unique id) non-zero
    ('newthread-string by 1', lambda ts: [R('TRACE_STRING_NEWTHREAD', 0, tid=1, ts=ts, data=b'childproc'.ljust(32, b'\0'))]),
    ('terminate-pid@3 -> 88', lambda ts: [R('TRACE_DATA_THREAD_TERMINATE_PID', 0, (88, 1, 0, 0), tid=3, ts=ts)]),
    ('thd-data tid3 pid99 by 2', lambda ts: [R('PERF_THD_Data', 0, (99, 3, 0, 0), tid=2, ts=ts)]),
    ('wait@2', lambda ts: [R('MACH_WAIT', 0, (0x10, 0, 0, 0), tid=2, ts=ts)]),
    ('exec-data pid 20 by 1', lambda ts: [R('TRACE_DATA_EXEC', 0, (20, 0, 0, 0), tid=1, ts=ts)]),    # thread 1 emits both kinds of pairs
    ('thread-terminate of 1 reported by 2', lambda ts: [R('TRACE_DATA_THREAD_TERMINATE', 0, (1, 0, 0, 0), tid=2, ts=ts)]),
    ('exec-string by 1', lambda ts: [R('TRACE_STRING_EXEC', 0, tid=1, ts=ts, data=b'e' * 32)]),
    ('exec-string-empty by 1', lambda ts: [R('TRACE_STRING_EXEC', 0, tid=1, ts=ts, data=bytes(32))]),    # declares the EMPTY name
    ('exec-string by 3', lambda ts: [R('TRACE_STRING_EXEC', 0, tid=3, ts=ts, data=b'f' * 32)]),     # thread 3 never emits the DATA half
    # thread names are not process names: a thread whose ID is numerically a process id is renamed (its former name is logged)
    ('threadname-prev by 3', lambda ts: [R('TRACE_STRING_THREADNAME_PREV', 0, tid=3, ts=ts, data=b'formername'.ljust(32, b'\0'))]),
    ('threadname by 2', lambda ts: [R('TRACE_STRING_THREADNAME', 0, tid=2, ts=ts, data=b'newname'.ljust(32, b'\0'))]),
]
MAPS = [[], [(1, 10, 'A')], [(1, 10, 'A'), (2, 20, 'B')], [(1, 2, 'A'), (2, 1, 'B'), (3, 3, 'C')],   # tids collide with pids
        [(1, 0xffffffff, 'M'), (2, 0x80000000, 'N')],   # pids with the top bit set
        [(1, 10, 'A'), (0, 0, ''), (3, 30, 'C'), (2, 20, 'B')]]   # a zeroed slot in the middle of the map
_TC = None


def tcodes():
    global _TC
    if _TC is None:
        _TC = dict(E.codes())
    return _TC


def lines(blob, api, cfg, color, filter_tid=None):
    p = PyKdebugParser()
    p.color = color
    p.filter_tid = filter_tid
    for k, v in zip(SW, cfg):
        setattr(p, k, v)
    if api == 'formatted_logs':
        return list(p.formatted_logs(io.BytesIO(blob)))
    return list(getattr(p, api)(io.BytesIO(blob), tcodes()))


TS_MODE = ['up']     # 'down': the records carry DEcreasing timestamps (the order of the stream, not the stamps, says what is earlier)


def dump(m, seq):
    recs = []
    ts = 1
    for i in seq:
        r = ALPHA[i][1](ts)
        recs += r
        ts += len(r)
    if TS_MODE[0] == 'down':
        n = len(recs)
        recs = [(1000 + n - k).to_bytes(8, 'little') + r[8:] for k, r in enumerate(recs)]
    return B.v2(MAPS[m], 0, recs)


COLS = {'formatted_kevents': [0, 1, 2, 3, 4, 5], 'formatted_traces': [0, 3, 4], 'formatted_callstacks': [0, 3, 4]}


def judge_compose(blob, api):
    """all 64 switch settings x colour: composition and colour-invariance. returns (bad or None, n_formats)"""
    cols = COLS[api]
    n = 0
    try:
        base = {}
        for c in cols:
            cfg = [False] * 6
            cfg[c] = True
            base[c] = lines(blob, api, cfg, False)
        none = lines(blob, api, [False] * 6, False)
        n += len(cols) + 1
        for full in itertools.product([False, True], repeat=6):
            got = lines(blob, api, list(full), False)
            n += 1
            if len(got) != len(none):
                return ('column-switch-changes-line-count', {'api': api, 'switches': list(full)}), n
            for li in range(len(got)):
                if api == 'formatted_kevents':
                    exp = ''.join(base[c][li] for c in cols if full[c])
                else:
                    body = none[li]
                    exp = ''.join(base[c][li][:len(base[c][li]) - len(body)] for c in cols if full[c]) + body
                if got[li] != exp:
                    return ('columns-do-not-compose:' + api, {'switches': list(full), 'got': got[li], 'expected': exp}), n
            if api != 'formatted_kevents':
                gc = lines(blob, api, list(full), True)
                n += 1
                if [ANSI.sub('', x) for x in gc] != got:
                    return ('colour-changes-text:' + api, {'switches': list(full), 'coloured': [ANSI.sub('', x) for x in gc][:2], 'plain': got[:2]}), n
    except Exception as ex:
        return ('formatting-raised:' + type(ex).__name__, {'api': api, 'error': repr(ex)[:200]}), n
    return None, n


def fmt_proc(tid, tp, pn):
    pid = tp.get(tid, -1)
    return f"{pn.get(pid, '')}({pid})" if pid != -1 else f'Error: tid {tid}'


def model(m, seq):
    """reference table evolution -> per emitted trace line: (emitting tid, [allowed (tp, pn) table states])"""
    tp = {t: p for t, p, _ in MAPS[m]}
    pn = {p: nm for _, p, nm in MAPS[m]}
    last_new = {}
    last_exec = {}
    out = []
    for i in seq:
        nm = ALPHA[i][0]
        if nm.startswith('getpid@'):
            t = int(nm[-1])
            out.append((t, [(dict(tp), dict(pn))]))
        elif nm.startswith('newthread-data'):
            old = (dict(tp), dict(pn))
            tp[3] = 10
            last_new[1] = 10
            out.append((1, [old, (dict(tp), dict(pn))]))
        elif nm.startswith('newthread-string'):
            old = (dict(tp), dict(pn))
            if 1 in last_new:
                pn[last_new[1]] = 'childproc'
            out.append((1, [old, (dict(tp), dict(pn))]))
        elif nm.startswith('terminate-pid'):
            old = (dict(tp), dict(pn))
            tp[3] = 88
            out.append((3, [old, (dict(tp), dict(pn))]))
        elif nm.startswith('thd-data'):
            old = (dict(tp), dict(pn))
            tp[3] = 99
            out.append((2, [old, (dict(tp), dict(pn))]))
        elif nm.startswith('wait') or nm.startswith('thread-terminate') or nm == 'threadname by 2':
            out.append((2, [(dict(tp), dict(pn))]))
        elif nm == 'threadname-prev by 3':
            out.append((3, [(dict(tp), dict(pn))]))
        elif nm.startswith('exec-data'):
            last_exec[1] = 20
            out.append((1, [(dict(tp), dict(pn))]))
        elif nm.startswith('exec-string-empty'):
            old = (dict(tp), dict(pn))
            if 1 in last_exec:
                pn[last_exec[1]] = ''
            out.append((1, [old, (dict(tp), dict(pn))]))
        elif nm == 'exec-string by 3':
            out.append((3, [(dict(tp), dict(pn))]))      # no DATA record of thread 3 precedes it: nothing is renamed
        elif nm.startswith('exec-string'):
            old = (dict(tp), dict(pn))
            if 1 in last_exec:
                pn[last_exec[1]] = 'e' * 32
            out.append((1, [old, (dict(tp), dict(pn))]))
    return out


def judge_process(m, seq):
    bad = _judge_process(m, seq)
    if bad is None and len(seq) >= 2:
        TS_MODE[0] = 'down'
        try:
            bad = _judge_process(m, seq)
        finally:
            TS_MODE[0] = 'up'
        if bad:
            bad = (bad[0] + ':decreasing-timestamps', bad[1])
    return bad


def _judge_process(m, seq):
    blob = dump(m, seq)
    mod = model(m, seq)
    try:
        got = lines(blob, 'formatted_traces', [False, False, False, False, True, False], False)
    except Exception as ex:
        return ('formatting-raised:' + type(ex).__name__, {'error': repr(ex)[:200]})
    if len(got) != len(mod):
        return ('trace-line-count', {'got': len(got), 'expected': len(mod)})
    for g, (tid, states) in zip(got, mod):
        cands = [fmt_proc(tid, tp, pn) for tp, pn in states]
        # the column is the process text left-justified to 34 (a longer text is not cut)
        if not any(g.startswith(f'{c:<34}') for c in cands):
            if any(g.startswith(c) for c in cands):
                return ('process-column-width', {'line': g})
            return ('process-column-not-the-declared-process', {'line': g, 'allowed': cands})
    # listing restricted to one thread: its lines name the same process as in the unrestricted listing (the point of the stream at
    # which a line is formatted does not move with the filter)
    for ft in (1, 2, 3):
        want = [g for g, (tid, _) in zip(got, mod) if tid == ft]
        try:
            sub = lines(blob, 'formatted_traces', [False, False, False, False, True, False], False, filter_tid=ft)
        except Exception as ex:
            return ('formatting-raised:' + type(ex).__name__, {'error': repr(ex)[:200], 'filter_tid': ft})
        if sub != want:
            return ('process-column-of-a-thread-listing-differs-from-the-full-listing', {'filter_tid': ft, 'got': sub[:6], 'expected': want[:6]})
    tp = {t: p for t, p, _ in MAPS[m]}
    pn = {p: nm for _, p, nm in MAPS[m]}
    ev_lines = lines(blob, 'formatted_kevents', [False, False, False, False, True, False], False)
    tids = []
    for i in seq:
        recs = ALPHA[i][1](0)
        tids += [int.from_bytes(r[40:48], 'little') for r in recs]
    if len(ev_lines) != len(tids):
        return ('event-line-count', {'got': len(ev_lines), 'expected': len(tids)})
    for g, tid in zip(ev_lines, tids):
        if g.rstrip() != fmt_proc(tid, tp, pn) or g != f'{fmt_proc(tid, tp, pn):<27}':
            return ('event-listing-process-column', {'line': g, 'expected': fmt_proc(tid, tp, pn)})
    return None


def judge_sequence(m1, seq1, m2, seq2, cut=None):
    """one PyKdebugParser object formats dump 1 and then dump 2: the lines of dump 2 must be those a fresh object gives (every line
    names the process THE DUMP declares - nothing carried over from the earlier dump)."""
    blob1, blob2 = dump(m1, seq1), dump(m2, seq2)
    if cut is not None:
        blob1 = blob1[:len(blob1) - cut]       # the first dump is truncated: formatting it raises part-way
    cfg = [True, False, False, True, True, False]
    for api in ('formatted_traces', 'formatted_kevents'):
        p = PyKdebugParser()
        p.color = False
        for k, v in zip(SW, cfg):
            setattr(p, k, v)
        try:
            try:
                list(getattr(p, api)(io.BytesIO(blob1), tcodes()))
            except Exception:
                if cut is None:
                    raise
            got = list(getattr(p, api)(io.BytesIO(blob2), tcodes()))
        except Exception as ex:
            return ('formatting-raised:' + type(ex).__name__, {'api': api, 'error': repr(ex)[:200]})
        exp = lines(blob2, api, cfg, False)
        if got != exp:
            d = next((i for i, (a, b) in enumerate(zip(got, exp)) if a != b), min(len(got), len(exp)))
            return ('lines-depend-on-dump-formatted-earlier:' + api, {'line': got[d] if d < len(got) else None, 'fresh': exp[d] if d < len(exp) else None})
        if cut is None:
            # both listings REQUESTED first, then read one after the other, each to its end: each names the processes its own dump declares
            p = PyKdebugParser()
            p.color = False
            for k, v in zip(SW, cfg):
                setattr(p, k, v)
            try:
                l1 = getattr(p, api)(io.BytesIO(blob1), tcodes())
                l2 = getattr(p, api)(io.BytesIO(blob2), tcodes())
                got1 = list(l1)
                got2 = list(l2)
            except Exception as ex:
                return ('formatting-raised:' + type(ex).__name__, {'api': api, 'error': repr(ex)[:200], 'requested_first': True})
            for got, blob, which in ((got1, blob1, 'first'), (got2, blob2, 'second')):
                exp = lines(blob, api, cfg, False)
                if got != exp:
                    d = next((i for i, (a, b) in enumerate(zip(got, exp)) if a != b), min(len(got), len(exp)))
                    return ('lines-depend-on-a-listing-requested-before-this-one-was-read:' + api,
                            {'which': which, 'line': got[d] if d < len(got) else None, 'fresh': exp[d] if d < len(exp) else None})
    return None


def callstack_dump():
    recs = [R('DYLD_uuid_map_a', 0, (0x11, 0x22, 0x1000, 3), 1, 1), R('PERF_Event', 1, (8, 1, 0, 0), 1, 2), R('PERF_STK_UHdr', 0, (1, 3, 0, 0), 1, 3),
            R('PERF_STK_UData', 0, (0x1010, 0x10, 0x2020, 0), 1, 4), R('PERF_Event', 2, (8, 0, 0, 0), 1, 5),
            R('PERF_Event', 1, (8, 1, 0, 0), 3, 6), R('PERF_STK_UHdr', 0, (1, 1, 0, 0), 3, 7), R('PERF_STK_UData', 0, (0x1234, 0, 0, 0), 3, 8),
            R('PERF_Event', 2, (8, 0, 0, 0), 3, 9)]
    return B.v2(MAPS[2], 0, recs)


def judge_callstack_owner():
    """call-stack lines carry the thread id and process of the thread that EMITTED the sample, also when the sample's thread-data
    record is about another thread (a sampling thread records other threads); an undeclared emitter is reported as unknown."""
    def sample(tid, ts, about, word):
        return [R('PERF_Event', 1, (9, 1, 0, 0), tid, ts), R('PERF_THD_Data', 0, (about[0], about[1], 0, 1), tid, ts + 1), R('PERF_STK_UHdr', 0, (1, 1, 0, 0), tid, ts + 2),
                R('PERF_STK_UData', 0, (word, 0, 0, 0), tid, ts + 3), R('PERF_Event', 2, (9, 0, 0, 0), tid, ts + 4)]
    # thread-data records repeat the thread map (no table change); thread 4 is in no map and samples thread 1
    recs = sample(1, 10, (20, 2), 0x1010) + sample(2, 20, (10, 1), 0x2010) + sample(4, 30, (10, 1), 0x4010) + sample(2, 40, (20, 2), 0x2020)
    blob = B.v2([(1, 10, 'A'), (2, 20, 'B')], 0, recs)
    try:
        got = lines(blob, 'formatted_callstacks', [False, False, False, True, True, False], False)
    except Exception as ex:
        return [('formatting-raised:' + type(ex).__name__, {'error': repr(ex)[:200], 'api': 'formatted_callstacks'})]
    heads = [ln.split('\n')[0] for ln in got]
    want = [(1, 'A(10)'), (2, 'B(20)'), (4, 'Error: tid 4'), (2, 'B(20)')]
    if len(heads) != len(want):
        return [('callstack-line-count', {'got': len(heads), 'expected': len(want)})]
    for h, (tid, proc) in zip(heads, want):
        if not h.startswith(f'{tid:>11} {proc}'):
            return [('callstack-line-not-attributed-to-the-emitting-thread', {'line': h, 'expected_tid': tid, 'expected_process': proc})]
    return []


def judge_multiline_body():
    """a body that contains a line feed (a thread name, a looked-up path): under every setting of the header columns the line is the
    header columns followed by the SAME body - nothing is inserted into the body."""
    recs = [R('TRACE_STRING_THREADNAME', 0, tid=1, ts=5, data=b'two\nlines\n\nend'.ljust(32, b'\0'))] + \
           [B.rec(6 + i, tid=1, debugid=E.n2i('VFS_LOOKUP') | q, data=d) for i, (d, q) in enumerate(B.lookup_chunks(0x77, '/tmp/two\nlines.txt'))]
    blob = B.v2([(1, 10, 'A')], 0, recs)
    try:
        bodies = lines(blob, 'formatted_traces', [False] * 6, False)
        for cfg in itertools.product((False, True), repeat=3):
            full = [cfg[0], False, False, cfg[1], cfg[2], False]
            got = lines(blob, 'formatted_traces', full, False)
            if len(got) != len(bodies) or not all(g.endswith(b) for g, b in zip(got, bodies)):
                return [('columns-do-not-compose:formatted_traces:body-with-line-feeds', {'switches': full, 'got': got[:2], 'bodies': bodies[:2]})]
    except Exception as ex:
        return [('formatting-raised:' + type(ex).__name__, {'error': repr(ex)[:200], 'api': 'formatted_traces'})]
    if not bodies or 'two\nlines\n\nend' not in bodies[0]:
        return [('harness:multiline-body-not-rendered', {'bodies': bodies[:2]})]
    return []


def log_dump():
    strings = {'hello world': 1, 'procname': 2}
    evs = [{'cm': 1, 't': 'logEvent', 's': 1, 'tid': 5, 'ns': 5, 'mct': 6, 'b': b'B' * 16, 'piu': b'P' * 16,
            'ud': {'sec': 1600000000, 'usec': 123456}, 'utz': {'mw': 0, 'dt': 0}, 'p': 2, 'pid': 9},
           {'cm': 1, 't': 'logEvent', 's': 2, 'tid': 0, 'ns': 5, 'mct': 7, 'b': b'B' * 16, 'piu': b'P' * 16,
            'ud': {'sec': 1600000001, 'usec': 0}, 'utz': {'mw': 0, 'dt': 0}},
           # records that name a process but carry no process id: the column names what the dump declares for the THREAD (thread 1 is in the
           # thread map, thread 77 is declared nowhere)
           {'cm': 1, 't': 'logEvent', 's': 3, 'tid': 1, 'ns': 5, 'mct': 8, 'b': b'B' * 16, 'piu': b'P' * 16,
            'ud': {'sec': 1600000002, 'usec': 0}, 'utz': {'mw': 0, 'dt': 0}, 'p': 2},
           {'cm': 1, 't': 'logEvent', 's': 4, 'tid': 77, 'ns': 5, 'mct': 9, 'b': b'B' * 16, 'piu': b'P' * 16,
            'ud': {'sec': 1600000003, 'usec': 0}, 'utz': {'mw': 0, 'dt': 0}, 'p': 2}]
    return B.v3([(1, 10, 'A')], [[]], [B.v3_block(B.TAG_LOG_STRINGS, B.bplist({'StringIndex': strings})),
                                      B.v3_block(B.TAG_LOG_EVENTS, B.bplist({'Events': evs}))])


def judge_logs():
    blob = log_dump()
    try:
        plain = lines(blob, 'formatted_logs', [True] * 6, False)
        col = lines(blob, 'formatted_logs', [True] * 6, True)
    except Exception as ex:
        return ('formatting-raised:' + type(ex).__name__, {'api': 'formatted_logs', 'error': repr(ex)[:200]})
    if len(plain) != 4 or 'hello world' not in plain[0] or 'procname(9)' not in plain[0] or '2020-09-13 12:26:40.123456' not in plain[0]:
        return ('log-line-content', {'lines': plain})
    if ' A(10) ' not in plain[2] or ' Error: tid 77 ' not in plain[3]:
        return ('log-process-column-not-the-declared-process', {'lines': plain[2:]})
    if not any('\x1b[' in x for x in col):
        return ('harness:colour-not-forced', {})
    stripped = [ANSI.sub('', x) for x in col]
    if stripped != plain:
        if [re.sub(r' +', ' ', x) for x in stripped] == [re.sub(r' +', ' ', x) for x in plain]:
            return ('colour-changes-text:formatted_logs:column-width', {'coloured': stripped, 'plain': plain})
        return ('colour-changes-text:formatted_logs', {'coloured': stripped, 'plain': plain})
    return None


def judge_colour_bodies():
    """bodies made of bytes of the dump (thread names) that contain a carriage return, begin / end with a blank or a newline:
    the coloured line without its escape sequences is the plain line."""
    bad = []
    for name in (b'a\rb', b'a\r\nb', b'x\n', b'\ny', b' lead', b'trail ', b'tab\t', b'plain'):
        blob = B.v2(MAPS[1], 0, [R('TRACE_STRING_THREADNAME', 0, tid=1, ts=5, data=name.ljust(32, b'\0'))])
        try:
            plain = lines(blob, 'formatted_traces', [True] * 6, False)
            col = [ANSI.sub('', x) for x in lines(blob, 'formatted_traces', [True] * 6, True)]
        except Exception as ex:
            return [('formatting-raised:' + type(ex).__name__, {'api': 'formatted_traces', 'error': repr(ex)[:200]})]
        if plain != col:
            kind = 'carriage-return' if b'\r' in name else 'edge-whitespace'
            bad.append(('colour-changes-text:formatted_traces:body-with-' + kind, {'name': repr(name), 'plain': plain, 'coloured': col}))
    return bad


def judge_line_independence():
    """with the timestamp and process columns off, the line of a record is a function of that record alone: whatever was listed before
    it (a thread with a 13- or 20-digit id, a long name, a long body) does not change it - in all three listings."""
    big, huge = (1 << 40) + 3, (1 << 64) - 1
    firsts = {'wide-tid': [R('BSC_getpid', 1, tid=big, ts=1), R('BSC_getpid', 2, (0, 5, 0, 0), tid=big, ts=2)],
              'widest-tid': [R('BSC_getpid', 1, tid=huge, ts=1), R('BSC_getpid', 2, (0, 5, 0, 0), tid=huge, ts=2)],
              'long-body': [R('TRACE_STRING_THREADNAME', 0, tid=2, ts=1, data=b'n' * 32)],
              'sample': [R('PERF_Event', 1, (8, 1, 0, 0), big, 1), R('PERF_STK_UHdr', 0, (1, 1, 0, 0), big, 2), R('PERF_STK_UData', 0, (0x1234, 0, 0, 0), big, 3), R('PERF_Event', 2, (8, 0, 0, 0), big, 4)]}
    seconds = {'getpid@1': [R('BSC_getpid', 1, tid=1, ts=10), R('BSC_getpid', 2, (0, 5, 0, 0), tid=1, ts=11)],
               'wait@2': [R('MACH_WAIT', 0, (0x10, 0, 0, 0), tid=2, ts=10)],
               'sample@3': [R('PERF_Event', 1, (8, 1, 0, 0), 3, 10), R('PERF_STK_UHdr', 0, (1, 1, 0, 0), 3, 11), R('PERF_STK_UData', 0, (0x1234, 0, 0, 0), 3, 12), R('PERF_Event', 2, (8, 0, 0, 0), 3, 13)]}
    bad = []
    for api in ('formatted_traces', 'formatted_kevents', 'formatted_callstacks'):
        for cfg in ([False, True, True, True, False, True], [False, False, False, True, False, False]):
            for sn, srecs in seconds.items():
                try:
                    alone = lines(B.v2(MAPS[2], 0, srecs), api, cfg, False)
                    for fn, frecs in firsts.items():
                        both = lines(B.v2(MAPS[2], 0, frecs + srecs), api, cfg, False)
                        if alone and both[-len(alone):] != alone:
                            bad.append(('line-depends-on-what-was-listed-before:' + api, {'first': fn, 'then': sn, 'alone': alone[-1:], 'after': both[-1:]}))
                            break
                except Exception as ex:
                    return [('formatting-raised:' + type(ex).__name__, {'api': api, 'error': repr(ex)[:200]})]
    return bad[:3]


def judge_superseded_sampler():
    """a sampler window (PERF_Event START..END by thread 2) holds a thread-data record that declares tid 3 -> pid 99; before the
    window ends another record re-declares tid 3 (NEWTHREAD 3 -> 10, or terminate-pid by 3 itself): after the END the newest
    declaration still holds."""
    bad = []
    for redecl, pid in ((R('TRACE_DATA_NEWTHREAD', 0, (3, 10, 0, 0), tid=1, ts=3), 10), (R('TRACE_DATA_THREAD_TERMINATE_PID', 0, (88, 1, 0, 0), tid=3, ts=3), 88),
                        (R('PERF_THD_Data', 0, (77, 3, 0, 0), tid=1, ts=3), 77)):
        for flags in (1, 9, 8):
            recs = [R('PERF_Event', 1, (flags, 5, 0, 0), tid=2, ts=1), R('PERF_THD_Data', 0, (99, 3, 0, 0), tid=2, ts=2), redecl,
                    R('BSC_getpid', 1, tid=3, ts=4), R('BSC_getpid', 2, (0, 5, 0, 0), tid=3, ts=5),
                    R('PERF_Event', 2, (flags, 0, 0, 0), tid=2, ts=6),
                    R('BSC_getpid', 1, tid=3, ts=7), R('BSC_getpid', 2, (0, 5, 0, 0), tid=3, ts=8)]
            blob = B.v2(MAPS[2], 0, recs)
            try:
                got = [x for x in lines(blob, 'formatted_traces', [False, False, False, False, True, False], False) if 'getpid' in x]
            except Exception as ex:
                return [('formatting-raised:' + type(ex).__name__, {'error': repr(ex)[:200]})]
            exp = f"{ {10: 'A', 20: 'B'}.get(pid, '') }({pid})"
            if len(got) != 2 or not all(g.startswith(f'{exp:<34}') for g in got):
                bad.append(('process-column-not-the-declared-process:declaration-inside-a-sampler-window-re-applied-at-its-END',
                            {'lines': got, 'expected_process': exp, 'sampler_flags': flags}))
    return bad


class C14(Check):
    pid = 'C14'
    level = 'model_checking'
    rule = ('all 2^6 column-switch settings x colour {off,on} x all record streams of <=2 (quick) / <=3 (thorough) items over 9 kinds '
            '(syscalls on a declared and an undeclared thread, NEWTHREAD data/string, EXEC data/string, terminate-pid, sampler '
            'thread-data, unrelated record) x thread maps {empty, 1 entry, 2 entries, 3 entries whose tids collide with other entries\' pids, pids 2^31 and 2^32-1}, through formatted_kevents and '
            'formatted_traces, the trace listing also restricted to each of threads 1..3 (equal to that thread s lines of the full listing) (+ one callstack dump through formatted_callstacks, one v3 log dump through formatted_logs); plus one 5-item group repeated N = 2^k-1, 2^k, 2^k+1 times (k = 5..11): every group after the first is formatted identically; plus the command-line tool\'s --show-tid / --color switches against the library; plus dump '
            'SEQUENCES: one parser object formats a first dump (1 item quick / <=2 thorough, any map) and then a second (<=2 items, '
            'any map) - the second dump\'s lines must equal a fresh object\'s, also when the first dump was truncated and formatting it raised. '
            'Oracle: line(config) == concatenation in fixed order of the single-column renderings; ANSI-stripped coloured line == '
            'plain line; process column == reference table evolution (thread map, then updates in stream order) rendered '
            'name(pid), or "Error: tid N" for a never-declared thread. states = distinct (switch setting, colour); transitions = '
            'format calls; non-trivial = stream containing a map-updating record.')
    assumptions = ('the line of the updating record itself may show the old or the new attribution',
                   'formatted_kevents does not decode and shows the static thread-map attribution',
                   'formatted_logs pads the coloured process field by its escaped length: runs of blanks are compared modulo length')

    def bounds(self):
        return {'stream_len': 2 if self.tier == 'quick' else 3, 'alphabet': len(ALPHA), 'maps': len(MAPS), 'configs': 128}

    def shards(self):
        L = 2 if self.tier == 'quick' else 3
        streams = list(seqs(range(len(ALPHA)), L))
        out = [('compose', m, ch) for m in range(len(MAPS)) for ch in chunked(streams, 30 if L == 2 else 120)]
        out += [('process', m, ch) for m in range(len(MAPS)) for ch in chunked(list(seqs(range(len(ALPHA)), L + 1)), 4)]
        out.append(('special',))
        out.append(('long',))
        out.append(('cli',))
        out.append(('repeat',))
        out += [('sequence', m1, i) for m1 in range(len(MAPS)) for i in range(len(ALPHA))]
        return out

    def run_shard(self, desc, acc):
        if desc[0] == 'compose':
            _, m, streams = desc
            for seq in streams:
                blob = dump(m, seq)
                for api in ('formatted_kevents', 'formatted_traces'):
                    bad, n = judge_compose(blob, api)
                    acc.case(nontrivial=any(i in (2, 3, 4, 5, 7, 9) for i in seq), transitions=n, outcome=h64((m, seq, api)))
                    acc.count('format_calls', n)
                    if bad:
                        acc.violation(bad[0], {'kind': 'compose', 'map': m, 'seq': list(seq), 'api': api}, bad[1])
            for full in itertools.product([False, True], repeat=6):
                for c in (False, True):
                    acc.state((full, c))
        elif desc[0] == 'process':
            _, m, streams = desc
            for seq in streams:
                bad = judge_process(m, seq)
                acc.case(nontrivial=any(i in (2, 3, 4, 5, 7, 9) for i in seq), transitions=2, outcome=h64((m, seq, 'p')))
                if bad:
                    acc.violation(bad[0], {'kind': 'process', 'map': m, 'seq': list(seq), 'readable': [ALPHA[i][0] for i in seq]}, bad[1])
                elif acc.want_sample() and len(seq) == 3 and 4 in seq:
                    acc.sample({'thread_map': MAPS[m], 'stream': [ALPHA[i][0] for i in seq]})
        elif desc[0] == 'repeat':
            # the same complete operation N times: N identical groups of lines (batching, caps, periodic clean-ups show at N = 2^k +- 1)
            unit = (0, 6, 2, 3, 1)
            for N in sorted({2 ** k + d for k in range(5, 12) for d in (-1, 0, 1)}):
                blob = dump(1, unit * N)
                for api in ('formatted_traces', 'formatted_kevents'):
                    try:
                        got = lines(blob, api, [False, False, False, True, True, False], False)
                    except Exception as ex:
                        acc.violation('formatting-raised:' + type(ex).__name__, {'kind': 'repeat', 'N': N, 'api': api}, {'error': repr(ex)[:200]})
                        continue
                    per = len(got) // N if N else 0
                    first, last = got[:per], got[-per:]
                    acc.case(nontrivial=True, transitions=1, outcome=h64(('repeat', N, api)))
                    # the first group differs from later ones only through the updates the group itself makes (tid 3 declared, pid 10 renamed)
                    steady = got[per:2 * per]
                    if len(got) != per * N or any(got[i * per:(i + 1) * per] != steady for i in range(1, N)):
                        bad_i = next((i for i in range(1, N) if got[i * per:(i + 1) * per] != steady), None)
                        acc.violation('repeated-operation-formatted-differently:' + api, {'kind': 'repeat', 'N': N, 'api': api},
                                      {'lines': len(got), 'per_group': per, 'first_differing_group': bad_i})
        elif desc[0] == 'long':
            # 300 items: a formatter that batches lines (or resolves the process column late) is invisible to 3-item streams
            for m in range(len(MAPS)):
                for stride in (1, 4, 7):
                    seq = tuple((i * stride + i // 9) % len(ALPHA) for i in range(300))
                    bad = judge_process(m, seq)
                    acc.case(nontrivial=True, transitions=2, outcome=h64((m, stride, 'long')))
                    if bad:
                        acc.violation(bad[0] + ':300-item-stream', {'kind': 'process', 'map': m, 'seq': list(seq)}, bad[1])
        elif desc[0] == 'cli':
            from mc.cli import run_cli
            for m in range(len(MAPS)):
                for seq in ((0, 2, 3, 1), (7, 9, 6, 4, 8, 1), (5, 1, 0)):
                    blob = dump(m, seq)
                    for cmd, api in (('traces', 'formatted_traces'), ('kevents', 'formatted_kevents'), ('callstacks', 'formatted_callstacks')):
                        for show_tid in (False, True):
                            for color in ((False, True) if cmd == 'traces' else (None,)):
                                args = [cmd] + (['--show-tid'] if show_tid else ['--no-show-tid']) + \
                                       ([] if color is None else (['--color'] if color else ['--no-color']))
                                code, got, exc = run_cli(blob, args)
                                cfg = [True, True, True, show_tid, True, True]
                                p = PyKdebugParser()
                                p.color = True if color is None else color
                                p.show_tid = show_tid
                                exp = list(getattr(p, api)(io.BytesIO(blob)))
                                exp = [l for x in exp for l in x.split('\n')]
                                acc.case(nontrivial=True, transitions=2, outcome=h64((m, seq, cmd, show_tid, color)))
                                if code != 0 or exc is not None or got != exp:
                                    acc.violation('cli-lines-differ-from-library:' + cmd, {'kind': 'cli', 'map': m, 'seq': list(seq), 'args': args},
                                                  {'exit': code, 'error': repr(exc)[:200], 'got': got[:2], 'expected': exp[:2]})
        elif desc[0] == 'sequence':
            _, m1, first = desc
            L = 1 if self.tier == 'quick' else 2
            seq1s = [(first,) + r for r in seqs(range(len(ALPHA)), L - 1 if L > 1 else 0)] if L > 1 else [(first,)]
            for seq1 in seq1s:
                for m2 in range(len(MAPS)):
                    for seq2 in seqs(range(len(ALPHA)), 2, 1):
                      for cut in (None, 20, 70):
                        bad = judge_sequence(m1, seq1, m2, seq2, cut)
                        acc.case(nontrivial=True, transitions=4, outcome=h64((m1, seq1, m2, seq2)) if len(seq2) == 1 else None)
                        if bad:
                            acc.violation(bad[0] + (':after-a-failed-dump' if cut else ''), {'kind': 'sequence', 'm1': m1, 'seq1': list(seq1), 'm2': m2, 'seq2': list(seq2), 'cut': cut,
                                                   'readable': [[ALPHA[i][0] for i in seq1], [ALPHA[i][0] for i in seq2]]}, bad[1])
        else:
            bad, n = judge_compose(callstack_dump(), 'formatted_callstacks')
            acc.case(nontrivial=True, transitions=n)
            if bad:
                acc.violation(bad[0], {'kind': 'callstacks'}, bad[1])
            bad = judge_logs()
            acc.case(nontrivial=True, transitions=2)
            if bad:
                acc.violation(bad[0], {'kind': 'logs'}, bad[1])
            for sig, detail in judge_multiline_body():
                acc.violation(sig, {'kind': 'multiline-body'}, detail)
            acc.case(nontrivial=True, transitions=18, state=h64('multiline-body'))
            for sig, detail in judge_callstack_owner():
                acc.violation(sig, {'kind': 'callstack-owner'}, detail)
            acc.case(nontrivial=True, transitions=20, state=h64('callstack-owner'))
            for sig, detail in judge_colour_bodies():
                acc.violation(sig, {'kind': 'colour-bodies'}, detail)
            acc.case(nontrivial=True, transitions=16, state=h64('colour-bodies'))
            for sig, detail in judge_line_independence():
                acc.violation(sig, {'kind': 'independence'}, detail)
            acc.case(nontrivial=True, transitions=72, state=h64('independence'))
            for sig, detail in judge_superseded_sampler():
                acc.violation(sig, {'kind': 'superseded-sampler'}, detail)
            acc.case(nontrivial=True, transitions=9, state=h64('superseded-sampler'))

    def replay(self, case):
        k = case['kind']
        if k == 'compose':
            bad, _ = judge_compose(dump(case['map'], tuple(case['seq'])), case['api'])
        elif k == 'process':
            bad = judge_process(case['map'], tuple(case['seq']))
        elif k == 'repeat':
            from mc.run import Acc
            acc = Acc()
            self.run_shard(('repeat',), acc)
            return [(sig, v['cases'][0][1]) for sig, v in acc.violations.items()]
        elif k == 'cli':
            from mc.run import Acc
            acc = Acc()
            self.run_shard(('cli',), acc)
            return [(sig, v['cases'][0][1]) for sig, v in acc.violations.items()]
        elif k == 'sequence':
            bad = judge_sequence(case['m1'], tuple(case['seq1']), case['m2'], tuple(case['seq2']), case.get('cut'))
            if bad and case.get('cut'):
                bad = (bad[0] + ':after-a-failed-dump', bad[1])
        elif k == 'callstacks':
            bad, _ = judge_compose(callstack_dump(), 'formatted_callstacks')
        elif k == 'multiline-body':
            return judge_multiline_body()
        elif k == 'callstack-owner':
            return judge_callstack_owner()
        elif k == 'colour-bodies':
            return judge_colour_bodies()
        elif k == 'independence':
            return judge_line_independence()
        elif k == 'superseded-sampler':
            return judge_superseded_sampler()
        else:
            bad = judge_logs()
        return [bad] if bad else []


if __name__ == '__main__':
    main(C14)
