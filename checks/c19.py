"""C19 — code-table text maps every 'hex-id name' line; a supplied table is honoured.

(A) all code-table texts of <=3 lines over a line grammar, LF and CRLF, against an independent parser.
(B) the bundled table and every single edit of it over a working set of names x event streams of <=3 operations:
    listing names come from the supplied table; decoding under table T' of a stream equals decoding under the bundled
    table of the stream whose ids are renamed through T' (metamorphic reference: the tool itself on the renamed stream)."""
import io
import itertools

from mc.run import Check, main, h64
from mc import build as B
from mc import ev as E
from mc.ref import ref_trace_codes
from mc.space import seqs, chunked
from pykdebugparser.trace_codes import from_trace_codes_text
from pykdebugparser.pykdebugparser import PyKdebugParser

IDFORMS = ['0x40c0548', '40c0548', '0X40C0548', '0x0', 'ffffffff', '0x00000001', '21000010', '10']      # the last two: no prefix, decimal digits only (still hex)
NAMES = ['A', 'BSC_read', 'a.b-c', 'IO#x', '#n;//', 'IO\ufeffx', '\u200bA', 'ven\x00dor']      # the last two: invisible characters that are NOT white space are part of a name
SEPS = [' ', '\t', ' \t  ']
TRAILS = ['', ' #comment', '\textra col fd 64 0x2100000c c',      # a tail whose words look like ids, the last one at the very end of the line
          ' # page 1\x0cfd0 NOT_A_LINE \u2028 fd1 NEITHER', ' # zero\x00padded \x00']        # a tail holding characters some splitters take for line ends (FF, U+2028)


def line(i, n, s, t):
    return IDFORMS[i] + SEPS[s] + NAMES[n] + TRAILS[t]


def judge_text(lines, eol):
    text = eol.join(lines) + (eol if lines and len(lines) % 2 else '')
    try:
        got = dict(from_trace_codes_text(text))
    except Exception as ex:
        return ('code-table-parse-raised:' + type(ex).__name__, {'text': text, 'error': repr(ex)[:100]})
    exp = ref_trace_codes(text)
    if got != exp:
        return ('code-table-mapping-wrong', {'text': text, 'got': repr(got), 'expected': repr(exp)})
    return None


# ---- part B ----------------------------------------------------------------------------------------------------
WORK = ['BSC_open', 'BSC_getpid', 'VFS_LOOKUP', 'TRACE_DATA_NEWTHREAD', 'TRACE_STRING_NEWTHREAD', 'MACH_vmfault',
        'RealFaultAddressInternal', 'PERF_Event', 'PERF_STK_UHdr', 'PERF_STK_UData', 'MSC_mach_reply_port', 'MACH_vm_page_release']
UNDECODABLE = 'MACH_vm_page_release'
FRESH = [0x0bad0000, 0x0bad0004]


LONG_PATH = '/a/path/of/more/than/24/bytes'


def ops(tid):
    """operation -> list of (name, qualifier, args or data)"""
    return [
        [('BSC_open', 1, (1, 0x601, 0o644, 0)), ('VFS_LOOKUP', 3, B.lookup_chunks(5, '/x')[0][0]), ('BSC_open', 2, (0, 3, 0, 0))],
        [('BSC_getpid', 1, (0, 0, 0, 0)), ('MACH_vm_page_release', 0, (1, 2, 3, 4)), ('BSC_getpid', 2, (0, 5, 0, 0))],
        [('TRACE_DATA_NEWTHREAD', 0, (50 + tid, 60, 0, 0)), ('TRACE_STRING_NEWTHREAD', 0, b'child'.ljust(32, b'\0'))],
        [('MACH_vmfault', 1, (0x1000, 0x2000, 0, 0)), ('RealFaultAddressInternal', 0, (0x1000, (44 << 16) | (3 << 8) | 2, 5, 6)),
         ('MACH_vmfault', 2, (0, 0, 0, 2))],
        [('PERF_Event', 1, (8, 1, 0, 0)), ('PERF_STK_UHdr', 0, (1, 2, 0, 0)), ('PERF_STK_UData', 0, (0x10, 0x20, 0, 0)),
         ('PERF_Event', 2, (8, 0, 0, 0))],
        [('MSC_mach_reply_port', 1, (0, 0, 0, 0)), ('MSC_mach_reply_port', 2, (7, 0, 0, 0))],
        # a sample window with records the tool does not decode before its header, between header and data and after the data
        [('PERF_Event', 1, (8, 1, 0, 0)), ('MACH_vm_page_release', 0, (1, 2, 3, 4)), ('PERF_STK_UHdr', 0, (1, 3, 0, 0)), ('MACH_vm_page_release', 0, (5, 6, 7, 8)),
         ('PERF_STK_UData', 0, (0x30, 0x40, 0x50, 0)), ('MACH_vm_page_release', 0, (9, 9, 9, 9)), ('PERF_Event', 2, (8, 0, 0, 0))],
        # a call whose lookup record is directly followed by a record the tool does not decode, carrying bytes that look like a path
        [('BSC_open', 1, (1, 0x601, 0o644, 0)), ('VFS_LOOKUP', 1, B.lookup_chunks(5, LONG_PATH)[0][0]), ('MACH_vm_page_release', 0, b'/PROBE/payload'.ljust(32, b'\0')),
         ('VFS_LOOKUP', 2, B.lookup_chunks(5, LONG_PATH)[1][0]), ('MACH_vm_page_release', 0, b'/PROBE/after'.ljust(32, b'\0')), ('BSC_open', 2, (0, 3, 0, 0))],
    ]


def edits():
    """list of (label, function(table dict) -> new table dict)"""
    out = [('bundled', lambda t: dict(t)), ('empty', lambda t: {}), ('only-one-entry', lambda t: {E.n2i('BSC_getpid'): 'BSC_getpid'})]
    dec = [n for n in WORK if n != UNDECODABLE]
    for n in WORK:
        out.append((f'remove:{n}', lambda t, n=n: {k: v for k, v in t.items() if v != n}))
    for n in dec:
        out.append((f'move:{n}', lambda t, n=n: {**{k: v for k, v in t.items() if v != n}, FRESH[0]: n}))
        out.append((f'to-undecodable:{n}', lambda t, n=n: {k: (UNDECODABLE if v == n else v) for k, v in t.items()}))
    # a second id carrying the same name (tables are keyed by id): the stream then uses the NEW id for that name
    for n in dec:
        out.append((f'alias-used:{n}', lambda t, n=n: {**t, FRESH[1]: n}))
    # names longer than any column of the listing (nobody decodes them): shown in full, two of them sharing their first 44 characters
    for n in dec[:3]:
        for L in (44, 45, 58, 100):
            out.append((f'long-name:{n}:{L}', lambda t, n=n, L=L: {k: (('LONG_' + 'x' * 39 + n + '_' * L)[:L] if v == n else v) for k, v in t.items()}))
    # names holding braces / percent signs (nobody decodes them): listed verbatim
    for n in dec[:2]:
        out.append((f'brace-name:{n}', lambda t, n=n: {k: ('obj{x}{{y}}_%s_{0}' if v == n else v) for k, v in t.items()}))
    out.append(('long-names-sharing-a-prefix', lambda t: {k: ('P' * 44 + v if v in dec[:2] else v) for k, v in t.items()}))
    for a, b in itertools.combinations(dec, 2):
        def swap(t, a=a, b=b):
            return {k: (b if v == a else a if v == b else v) for k, v in t.items()}
        out.append((f'swap:{a}:{b}', swap))
    return out


def stream_records(opseq, table_default_ids):
    recs = []
    meta = []
    ts = 1
    for (oi, tid) in opseq:
        for name, q, payload in ops(tid)[oi]:
            eid = table_default_ids[name]
            data = payload if isinstance(payload, bytes) else None
            recs.append(B.rec(ts, payload if data is None else (0, 0, 0, 0), tid, eid | q, data=data))
            meta.append((ts, tid, eid, q))
            ts += 1
    return recs, meta


def observe_traces(blob, table):
    """(traces, error) - error is 'Type@file:function' of an exception that ended the stream, else None."""
    import traceback
    f = PyKdebugParser()
    f.color = False
    out = []
    try:
        for t in f.traces(io.BytesIO(blob), table):
            out.append((type(t).__name__, str(t), tuple(e.timestamp for e in t.ktraces)))
    except Exception as ex:
        site = 'outside'
        for fr in traceback.extract_tb(ex.__traceback__):
            if '/pykdebugparser/' in fr.filename:
                site = f"{fr.filename.rsplit('/', 1)[-1]}:{fr.name}"
        return out, f'{type(ex).__name__}@{site}'
    return out, None


def observe_names(blob, table):
    f = PyKdebugParser()
    f.show_timestamp = f.show_func_qual = f.show_tid = f.show_process = f.show_args = False
    return list(f.formatted_kevents(io.BytesIO(blob), table))


_DEFAULT = None


def default_table():
    global _DEFAULT
    if _DEFAULT is None:
        _DEFAULT = dict(E.codes())
    return _DEFAULT


def judge_supplied(opseq, edit_label, edit_fn):
    T = default_table()
    ids = {n: E.n2i(n) for n in WORK}
    T2 = edit_fn(T)
    if edit_label.startswith('alias-used:'):
        ids = dict(ids)
        ids[edit_label.split(':')[1]] = FRESH[1]     # the stream carries the alias id; the reference renames it back
    recs, meta = stream_records(opseq, ids)
    ids = {n: E.n2i(n) for n in WORK}
    blob = B.v2([(1, 10, 'A'), (2, 20, 'B')], 0, recs)
    bad = []
    # listing names
    try:
        names = observe_names(blob, T2)
    except Exception as ex:
        return [('listing-raised:' + type(ex).__name__, {'error': repr(ex)[:200]})]
    for (ts, tid, eid, q), shown in zip(meta, names):
        exp = f'{T2[eid]} ({hex(eid)})' if eid in T2 else hex(eid)
        if shown.rstrip() != exp:
            bad.append(('listing-name-not-from-supplied-table', {'shown': shown.rstrip(), 'expected': exp}))
            break
    # metamorphic decoding reference: rename ids through T2 and decode under the bundled table
    unknown = 0xdead0000
    renamed = []
    for r, (ts, tid, eid, q) in zip(recs, meta):
        if eid in T2 and T2[eid] in ids:
            new = ids[T2[eid]] if T2[eid] != UNDECODABLE or True else eid
        elif eid in T2 and T2[eid] != T.get(eid):
            new = ids[UNDECODABLE]       # renamed to a name nobody decodes
        elif eid in T2:
            new = eid
        else:
            new = unknown
        renamed.append(r[:48] + B.le(new | q, 4) + r[52:])
    blob_ren = B.v2([(1, 10, 'A'), (2, 20, 'B')], 0, renamed)
    got, gerr = observe_traces(blob, T2)
    exp, eerr = observe_traces(blob_ren, T)
    vm_edit = 'RealFaultAddressInternal' in edit_label or 'MACH_vmfault' in edit_label
    if gerr != eerr:
        # a redirected record may be out of domain for the decoder it is redirected to: then both runs stop with the same
        # error at the same site. A difference is a violation; K4 when it arises in the page-fault decoder's id-range lookup.
        if vm_edit and 'handle_mach_vmfault' in (gerr or '') + (eerr or ''):
            bad.append(('vmfault-nested-by-id-range', {'edit': edit_label, 'got_error': gerr, 'expected_error': eerr}))
        else:
            bad.append(('decoding-ignores-supplied-table', {'edit': edit_label, 'got_error': gerr, 'expected_error': eerr}))
    elif got != exp:
        # classify: known mechanism K4 = MACH_vmfault selecting its nested record by hard-coded id range
        gd = [g for g in got if g not in exp]
        ed = [x for x in exp if x not in got]
        only_vmfault = all(g[0] == 'MachVmfault' for g in gd + ed) and (gd or ed)
        same_shape = len(got) == len(exp) and all(a[0] == b[0] and a[2] == b[2] for a, b in zip(got, exp))
        if only_vmfault and same_shape and vm_edit:
            bad.append(('vmfault-nested-by-id-range', {'edit': edit_label, 'got': [g[1] for g in gd], 'expected': [x[1] for x in ed]}))
        else:
            bad.append(('decoding-ignores-supplied-table', {'edit': edit_label, 'got': repr(gd)[:300], 'expected': repr(ed)[:300]}))
    # an id absent from the table never yields a trace
    for g in got:
        first_ts = g[2][0]
        eid = next(m[2] for m in meta if m[0] == first_ts)
        if eid not in T2:
            bad.append(('trace-for-id-absent-from-table', {'trace': g[1]}))
            break
    return bad


def judge_two_listings(opseq, label1, fn1, label2, fn2):
    """two lazy listings requested from ONE object with two different tables before either is consumed, then consumed
    alternately: each line must be named from the table its own request supplied."""
    T = default_table()
    ids = {n: E.n2i(n) for n in WORK}
    recs, meta = stream_records(opseq, ids)
    blob = B.v2([(1, 10, 'A'), (2, 20, 'B')], 0, recs)
    f = PyKdebugParser()
    f.show_timestamp = f.show_func_qual = f.show_tid = f.show_process = f.show_args = False
    t1, t2 = fn1(T), fn2(T)
    try:
        g1 = f.formatted_kevents(io.BytesIO(blob), t1)
        g2 = f.formatted_kevents(io.BytesIO(blob), t2)
        out1, out2 = [], []
        for _ in meta:
            out1.append(next(g1))
            out2.append(next(g2))
    except Exception as ex:
        return ('listing-raised:' + type(ex).__name__, {'error': repr(ex)[:200]})
    for out, tab, lab in ((out1, t1, label1), (out2, t2, label2)):
        for (ts, tid, eid, q), shown in zip(meta, out):
            exp = f'{tab[eid]} ({hex(eid)})' if eid in tab else hex(eid)
            if shown.rstrip() != exp:
                return ('listing-name-not-from-supplied-table', {'table': lab, 'shown': shown.rstrip(), 'expected': exp, 'two_listings': [label1, label2]})
    return None


def judge_callstacks_table(label, fn):
    """callstacks / formatted_callstacks under a supplied table == the same request on the id-renamed stream under the bundled table."""
    T = default_table()
    ids = {n: E.n2i(n) for n in WORK}
    T2 = fn(T)
    opseq = [(4, 1), (0, 1), (4, 2), (6, 1), (6, 2)]
    recs, meta = stream_records(opseq, ids)
    renamed = []
    for r, (ts, tid, eid, q) in zip(recs, meta):
        new = ids[T2[eid]] if eid in T2 and T2[eid] in ids else (eid if eid in T2 else 0xdead0000)
        renamed.append(r[:48] + B.le(new | q, 4) + r[52:])
    blob, blob_ren = B.v2([(1, 10, 'A')], 0, recs), B.v2([(1, 10, 'A')], 0, renamed)
    def run(api, b, tab):
        # a redirected record may be out of domain for the decoder it is redirected to: both runs then stop with the same error
        out = []
        try:
            for x in getattr(PyKdebugParser(), api)(io.BytesIO(b), tab):
                out.append(repr(x))
        except Exception as ex:
            out.append('RAISED ' + type(ex).__name__)
        return out
    for api in ('callstacks', 'formatted_callstacks'):
        got, exp = run(api, blob, T2), run(api, blob_ren, T)
        if got != exp:
            return ('callstacks-ignore-supplied-table:' + api, {'edit': label, 'got_n': len(got), 'expected_n': len(exp)})
    # absolute expectation (the comparison above runs the same code twice): while the table still names the sampler records, each
    # sample's frames are the first N words of ITS stack-data records, whatever other ids the table lacks
    if all(T2.get(ids[n]) == n for n in ('PERF_Event', 'PERF_STK_UHdr', 'PERF_STK_UData')) and not any(str(x).startswith('RAISED') for x in exp):
        # (an edit that redirects a record to a decoder it is out of domain for stops both runs with the same error: not judged)
        try:
            frames = [[f.address for f in x.frames] for x in PyKdebugParser().callstacks(io.BytesIO(blob), T2)]
        except Exception as ex:
            frames = 'RAISED ' + type(ex).__name__
        want = [[0x10, 0x20], [0x10, 0x20], [0x30, 0x40, 0x50], [0x30, 0x40, 0x50]]
        if frames != want:
            return ('callstack-frames-wrong-under-supplied-table', {'edit': label, 'got': repr(frames)[:200]})
    return None


def judge_paths_table(label, fn):
    """absolute expectation for looked-up paths under a supplied table: while the table still names the call and the lookup records,
    open() shows exactly the path of ITS lookup records - whatever other ids the table lacks or renames."""
    T = default_table()
    ids = {n: E.n2i(n) for n in WORK}
    T2 = fn(T)
    if not all(T2.get(ids[n]) == n for n in ('BSC_open', 'VFS_LOOKUP')):
        return None
    recs, meta = stream_records([(7, 1), (0, 2), (7, 2)], ids)
    blob = B.v2([(1, 10, 'A'), (2, 20, 'B')], 0, recs)
    got, err = observe_traces(blob, T2)
    if err:
        return ('decoding-under-supplied-table-raised', {'edit': label, 'error': err})
    opens = [g[1] for g in got if g[0] == 'BscOpen']
    if len(opens) != 3 or not all(o.startswith(f'open("{want}",') for o, want in zip(opens, (LONG_PATH, '/x', LONG_PATH))):
        return ('path-not-from-the-lookup-records-under-supplied-table', {'edit': label, 'got': opens})
    return None


def judge_filters_follow_the_table():
    """class / subclass filters select by the id a record carries, decoding goes by the name the SUPPLIED table gives that id: with
    the lookup code moved into the requested BSD subclass its traces are requested too; with getpid moved to a file-system-class id
    it is not among the BSD traces."""
    import io
    from pykdebugparser.pykdebugparser import PyKdebugParser
    T = default_table()
    bad = []
    for label, moved_name, new_id in (('lookup-moved-into-the-bsd-class', 'VFS_LOOKUP', 0x40c0ff0), ('getpid-moved-into-the-file-system-class', 'BSC_getpid', 0x3010050),
                                      ('lookup-moved-within-the-file-system-class', 'VFS_LOOKUP', 0x3020090),
                                      ('nothing-moved', None, None)):
        T2 = dict(T)
        ids = {n: E.n2i(n) for n in ('BSC_open', 'VFS_LOOKUP', 'BSC_getpid')}
        if moved_name:
            del T2[ids[moved_name]]
            T2[new_id] = moved_name
            ids[moved_name] = new_id
        look = B.lookup_chunks(0x77, '/etc/hosts')
        recs = [B.rec(1, (1, 0, 0, 0), 1, ids['BSC_open'] | 1)] + [B.rec(2 + i, tid=1, debugid=ids['VFS_LOOKUP'] | q, data=d) for i, (d, q) in enumerate(look)] + \
               [B.rec(8, (0, 3, 0, 0), 1, ids['BSC_open'] | 2), B.rec(9, (0, 0, 0, 0), 1, ids['BSC_getpid'] | 1), B.rec(10, (0, 5, 0, 0), 1, ids['BSC_getpid'] | 2)]
        blob = B.v2([(1, 10, 'A')], 0, recs)

        def ask(cl, sc):
            f = PyKdebugParser()
            f.filter_class, f.filter_subclass = list(cl), list(sc)
            return [(t.ktraces[0].eventid, str(t)) for t in f.traces(io.BytesIO(blob), T2)]
        try:
            full = ask((), ())
            for cl, sc in (((4,), ()), ((), (0x040c,)), ((3,), ()), ((4, 3), ()), ((), (0x0301,))):
                exp = [x for x in full if (x[0] >> 24) in cl or (x[0] >> 16) in sc]
                got = ask(cl, sc)
                if got != exp:
                    bad.append(('filtered-traces-under-supplied-table-differ-from-restricted-unfiltered', {'table': label, 'classes': list(cl), 'subclasses': list(sc),
                                                                                                       'got': [g[1] for g in got], 'expected': [g[1] for g in exp]}))
                    break
        except Exception as ex:
            bad.append(('decoding-under-supplied-table-raised', {'table': label, 'error': repr(ex)[:200]}))
    return bad


def judge_absent_ids_inside_windows():
    """records whose id the supplied table LACKS sit inside the windows of composites the table names (page fault, sample, launch, a
    call with a lookup): they are shown as bare hex in the event listing, are never decoded, and the composites decode as without them."""
    import io
    from pykdebugparser.pykdebugparser import PyKdebugParser
    T = default_table()
    absent = 0x2b5a0000
    assert absent not in T
    n = E.n2i

    def stream(with_absent):
        x = [B.rec(0, (1, 2, 3, 4), 1, absent | q) for q in (0, 1, 3)] if with_absent else []
        recs = [B.rec(0, (0xaaaa, 0xbbbb, 1, 0), 1, n('MACH_vmfault') | 1)] + x + [B.rec(0, (0x7000, (0x99 << 16) | (3 << 8) | 2, 5, 77), 1, n('RealFaultAddressInternal'))] + x + \
               [B.rec(0, (0, 0, 0, 2), 1, n('MACH_vmfault') | 2),
                B.rec(0, (8, 1, 0, 0), 1, n('PERF_Event') | 1)] + x + [B.rec(0, (1, 2, 0, 0), 1, n('PERF_STK_UHdr')), B.rec(0, (0x1010, 0x2020, 0, 0), 1, n('PERF_STK_UData'))] + x + \
               [B.rec(0, (8, 0, 0, 0), 1, n('PERF_Event') | 2),
                B.rec(0, (1, 0, 0, 0), 1, n('BSC_open') | 1)] + x + [B.rec(0, tid=1, debugid=n('VFS_LOOKUP') | q, data=d) for d, q in B.lookup_chunks(0x77, '/etc/hosts')] + x + \
               [B.rec(0, (0, 3, 0, 0), 1, n('BSC_open') | 2)]
        return B.v2([(1, 10, 'A')], 0, [(i + 1).to_bytes(8, 'little') + r[8:] for i, r in enumerate(recs)])
    try:
        base = [str(t) for t in PyKdebugParser().traces(io.BytesIO(stream(False)), T)]
        got = [str(t) for t in PyKdebugParser().traces(io.BytesIO(stream(True)), T)]
    except Exception as ex:
        return [('decoding-under-supplied-table-raised', {'error': repr(ex)[:200], 'stream': 'records of an id the table lacks inside composite windows'})]
    if got != base or not any('pid: 77' in g for g in base):
        return [('composite-decoded-differently-with-records-of-an-absent-id-inside', {'got': got[:6], 'without_them': base[:6]})]
    return []


def judge_file_loader():
    """from_trace_codes_file: what is loaded is what the file holds NOW - also when the file was replaced without its
    modification time changing, and for several files in turn."""
    import os
    import tempfile
    from pykdebugparser.trace_codes import from_trace_codes_file
    d = tempfile.mkdtemp(prefix='verif_codes_')
    bad = None
    try:
        p1, p2 = os.path.join(d, 'a.codes'), os.path.join(d, 'b.codes')
        texts = ['0x1 A\n0x2 B\n', '0x1 C\n0x3 D #x\n', '', '0X10\tE\n0x1 A\n']
        open(p2, 'w').write('0x9 Z\n')
        stamp = None
        for i, t in enumerate(texts + texts[:2]):
            with open(p1, 'w') as f:
                f.write(t)
            if stamp is None:
                stamp = os.stat(p1).st_mtime_ns
            os.utime(p1, ns=(stamp, stamp))          # the replacement keeps the old modification time
            got = dict(from_trace_codes_file(p1))
            other = dict(from_trace_codes_file(p2))
            if got != ref_trace_codes(t) or other != {9: 'Z'}:
                bad = ('code-table-file-load-stale-or-wrong', {'step': i, 'text': t, 'got': repr(got), 'expected': repr(ref_trace_codes(t))})
                break
            got.clear()                                # a caller that modifies what it was given must not poison later loads
        # a table of the caller named RELATIVE to the working directory, under the customary file name of such tables (and a path object,
        # a ./ path, a sub-directory): what is loaded is that file
        import pathlib
        cwd = os.getcwd()
        try:
            os.chdir(d)
            os.mkdir('tables')
            for rel in ('trace.codes', './trace.codes', pathlib.Path('trace.codes'), 'tables/trace.codes', 'a.codes'):
                with open(rel, 'w') as f:
                    f.write('0x7 MINE\n0x40c0010 BSC_mine\n')
                got = dict(from_trace_codes_file(rel))
                if not bad and got != {7: 'MINE', 0x40c0010: 'BSC_mine'}:
                    bad = ('code-table-file-load-stale-or-wrong', {'relative_path': str(rel), 'got_n': len(got), 'expected': "{7: 'MINE', 0x40c0010: 'BSC_mine'}"})
            os.unlink('tables/trace.codes')
            os.rmdir('tables')
        finally:
            os.chdir(cwd)
        # large tables whose lines end exactly at / next to 2^k characters (k = 9..17: every plausible read-buffer size), LF and CRLF
        for k in range(9, 18):
            for delta in (-1, 0, 1):
                for nl in ('\n', '\r\n'):
                    if bad:
                        break
                    target = 2 ** k + delta
                    t, i = '', 0
                    while len(t) < target - 64:
                        t += f'0x{0x1000 + i:x} N{i}{nl}'
                        i += 1
                    head = f'0x{0x1000 + i:x} '
                    t += head + 'P' * (target - len(t) - len(head) - len(nl)) + nl
                    assert len(t) == target
                    t += f'0x{0x5000000 + k:x} AFTER{k}{nl}0x{0x5000100 + k:x} LAST{k}'
                    with open(p1, 'w', newline='') as f:
                        f.write(t)
                    got = dict(from_trace_codes_file(p1))
                    exp = ref_trace_codes(t)
                    if got != exp:
                        diff = sorted(set(got.items()) ^ set(exp.items()))[:3]
                        bad = ('code-table-file-load-wrong-at-buffer-boundary', {'line_ends_at': target, 'newline': repr(nl), 'differs': repr(diff)[:200]})
    finally:
        for f in os.listdir(d):
            os.unlink(os.path.join(d, f))
        os.rmdir(d)
    return bad


class C19(Check):
    pid = 'C19'
    level = 'exploration'
    rule = ('(A) code-table texts: all sequences of <=2 lines over id-form (6: with/without 0x, upper case, zero, 32-bit max, '
            'leading zeros) x name (5, incl. names containing '#', ';', '/') x separator (3) x trailing (3) = 270 line kinds, and all sequences of 3 lines over a '
            '24-kind sub-grammar (repeated ids included), each with LF and CRLF, with and without final newline; oracle: '
            'mapping == independent parse (last occurrence wins). (B) supplied tables: the bundled table and every single edit '
            'over a 12-name working set (remove a name, move a decodable name to a fresh id, point it at an undecodable name, give it a name of 44/45/58/100 characters, '
            'swap two decodable names, add a second id for a name and use it in the stream, the empty table, a one-entry table: 114 tables) x all sequences of <=2 (quick) / <=3 (thorough) operations over 6 operation '
            'kinds x 2 threads; oracle: listing shows NAME (0xid) from the supplied table or bare hex; traces(stream, T\') == '
            'traces(stream with ids renamed through T\', bundled table) in type, text and window; no trace for an absent id; two lazy listings with different tables requested from one object and consumed alternately; '
            'callstacks / formatted_callstacks under every table edit that touches a sampler name; the file loader on tables whose lines end exactly at / next to 2^k characters (k=9..17, LF and CRLF) and on a file rewritten '
            '6 times with its modification time pinned, and the bundled table loaded twice. '
            'non-trivial = edited table whose edit touches a name used by the stream.')
    assumptions = ('part B reference is the tool itself on the renamed stream under the bundled table (metamorphic)',
                   'lines are "hex-id name [anything]"; blank lines are outside the grammar')

    def bounds(self):
        return {'tables': len(edits()), 'ops': 6, 'stream_len': 2 if self.tier == 'quick' else 3}

    def shards(self):
        out = [('text2', i) for i in range(len(IDFORMS))] + [('text3',)]
        L = 2 if self.tier == 'quick' else 3
        alphabet = [(oi, tid) for oi in range(6) for tid in (1, 2)]
        streams = list(seqs(alphabet, L, 1))
        out += [('tables', ch) for ch in chunked(streams, 60)]
        out.append(('two-listings',))
        out.append(('callstacks',))
        out.append(('file-loader',))
        return out

    def run_shard(self, desc, acc):
        if desc[0] == 'text2':
            kinds = [(i, n, s, t) for i in range(len(IDFORMS)) for n in range(len(NAMES)) for s in range(3) for t in range(len(TRAILS))]
            first = [k for k in kinds if k[0] == desc[1]]
            for a in first:
                for rest in [()] + [(b,) for b in kinds]:
                    ls = [line(*a)] + [line(*b) for b in rest]
                    for eol in ('\n', '\r\n', '\r'):
                        bad = judge_text(ls, eol)
                        acc.case(nontrivial=len(ls) >= 2, transitions=1, outcome=h64(tuple(ls)) if len(ls) == 1 else None)
                        if bad:
                            acc.violation(bad[0], {'kind': 'text', 'lines': ls, 'eol': eol}, bad[1])
            if desc[1] == 0:
                bad = judge_text([], '\n')
                acc.case(nontrivial=False, transitions=1)
                if bad:
                    acc.violation(bad[0], {'kind': 'text', 'lines': [], 'eol': '\n'}, bad[1])
        elif desc[0] == 'text3':
            kinds = [(i, n, 0, t) for i in range(6) for n in (0, 3) for t in (0, 1)]
            for combo in itertools.product(kinds, repeat=3):
                ls = [line(*k) for k in combo]
                for eol in ('\n', '\r\n', '\r'):
                    bad = judge_text(ls, eol)
                    acc.case(nontrivial=True, transitions=1)
                    if bad:
                        acc.violation(bad[0], {'kind': 'text', 'lines': ls, 'eol': eol}, bad[1])
            acc.sample({'code_table_lines': [line(0, 1, 1, 1), line(2, 0, 0, 0), line(1, 2, 2, 2)]})
        elif desc[0] == 'two-listings':
            eds = [e for e in edits() if e[0] in ('bundled', 'empty', 'remove:BSC_open', 'move:BSC_getpid', 'to-undecodable:VFS_LOOKUP', 'swap:BSC_open:BSC_getpid')]
            for opseq in ([(0, 1), (1, 2)], [(1, 1)], [(0, 1), (5, 2), (1, 1)]):
                for (l1, f1), (l2, f2) in itertools.permutations(eds, 2):
                    bad = judge_two_listings(opseq, l1, f1, l2, f2)
                    acc.case(nontrivial=True, transitions=2)
                    if bad:
                        acc.violation(bad[0] + ':two-lazy-listings', {'kind': 'two-listings', 'ops': [list(x) for x in opseq], 'edits': [l1, l2]}, bad[1])
        elif desc[0] == 'file-loader':
            bad = judge_file_loader()
            acc.case(nontrivial=True, transitions=6)
            acc.case(nontrivial=True, transitions=6)
            if bad:
                acc.violation(bad[0], {'kind': 'file-loader'}, bad[1])
            from pykdebugparser.trace_codes import default_trace_codes
            a = default_trace_codes()
            a_copy = dict(a)
            try:
                a.clear()
            except Exception:
                pass
            if dict(default_trace_codes()) != a_copy or a_copy != default_table():
                acc.violation('bundled-table-load-not-repeatable', {'kind': 'file-loader'}, {})
        elif desc[0] == 'callstacks':
            for sig, detail in judge_absent_ids_inside_windows():
                acc.violation(sig, {'kind': 'absent-ids-inside-windows'}, detail)
            acc.case(nontrivial=True, transitions=30)
            for sig, detail in judge_filters_follow_the_table():
                acc.violation(sig, {'kind': 'filters-follow-the-table'}, detail)
            acc.case(nontrivial=True, transitions=18)
            for label, fn in edits():
                if not any(n in label for n in ('PERF_', 'bundled', 'empty', 'only-one', 'BSC_open', UNDECODABLE)):
                    continue
                bad = judge_callstacks_table(label, fn) or judge_paths_table(label, fn)
                acc.case(nontrivial=True, transitions=4)
                if bad:
                    acc.violation(bad[0], {'kind': 'callstacks', 'edit': label}, bad[1])
        else:
            eds = edits()
            for opseq in desc[1]:
                used = {n for (oi, tid) in opseq for (n, q, p) in ops(tid)[oi]}
                for label, fn in eds:
                    bad = judge_supplied(opseq, label, fn)
                    touched = any(n in label.split(':')[1:] for n in used)
                    acc.case(nontrivial=touched, transitions=2, outcome=h64((label, tuple(opseq))) if touched else None)
                    for sig, detail in bad:
                        acc.violation(sig, {'kind': 'table', 'ops': [list(x) for x in opseq], 'edit': label}, detail)
                    if not bad and touched and acc.want_sample():
                        acc.sample({'ops': [list(x) for x in opseq], 'table_edit': label})

    def replay(self, case):
        if case['kind'] == 'text':
            bad = judge_text(case['lines'], case['eol'])
            return [bad] if bad else []
        if case['kind'] == 'two-listings':
            d = dict(edits())
            bad = judge_two_listings([tuple(x) for x in case['ops']], case['edits'][0], d[case['edits'][0]], case['edits'][1], d[case['edits'][1]])
            return [(bad[0] + ':two-lazy-listings', bad[1])] if bad else []
        if case['kind'] == 'absent-ids-inside-windows':
            return judge_absent_ids_inside_windows()
        if case['kind'] == 'filters-follow-the-table':
            return judge_filters_follow_the_table()
        if case['kind'] == 'file-loader':
            bad = judge_file_loader()
            return [bad] if bad else []
        if case['kind'] == 'callstacks':
            bad = judge_callstacks_table(case['edit'], dict(edits())[case['edit']]) or judge_paths_table(case['edit'], dict(edits())[case['edit']])
            return [bad] if bad else []
        fn = dict(edits())[case['edit']]
        return judge_supplied([tuple(x) for x in case['ops']], case['edit'], fn)


if __name__ == '__main__':
    main(C19)
