"""C05 — per-thread results are invariant under interleaving of threads.

Schedules = merge orders of per-thread event programs (as produced when per-CPU buffers are merged). Every ordered pair and
triple of programs from a library, every interleaving, fed to a fresh real TracesParser; per-thread projections and learned
tables must equal those of the solo runs."""
import itertools

from mc.run import Check, main, h64
from mc import ev as E
from mc import build as B
from mc.space import interleavings, chunked
from pykdebugparser.traces_parser import TracesParser


def S(txt):
    return txt.ljust(32, b'\0')


def programs(t):
    """library of per-thread programs for thread t (own pid 10*t, own names)."""
    pid = 10 * t
    nm = b'proc%d' % t
    ev = E.ev
    return {
        'open+lookup': [ev('BSC_open', 1, (1, 0, 0, 0), t), ev('VFS_LOOKUP', 3, tid=t, data=B.le(t, 8) + S(b'/p%d' % t)[:24]),
                        ev('BSC_open', 2, (0, 3, 0, 0), t)],
        'newthread': [ev('TRACE_DATA_NEWTHREAD', 0, (100 + t, pid, 0, 0), t), ev('TRACE_STRING_NEWTHREAD', 0, tid=t, data=S(nm))],
        'exec': [ev('TRACE_DATA_EXEC', 0, (pid + 1, 0, 0, 0), t), ev('TRACE_STRING_EXEC', 0, tid=t, data=S(nm + b'x'))],
        'nested-syscalls': [ev('BSC_getpid', 1, tid=t), ev('BSC_getuid', 1, tid=t), ev('BSC_getuid', 2, (0, t, 0, 0), t),
                            ev('BSC_getpid', 2, (0, pid, 0, 0), t)],
        'threadname+terminate': [ev('TRACE_STRING_THREADNAME', 1, tid=t, data=S(b'thr%d' % t)), ev('TRACE_STRING_THREADNAME', 2, tid=t, data=S(b'')),
                                 ev('TRACE_DATA_THREAD_TERMINATE', 0, (t, 0, 0, 0), t)],
        'sample': [ev('PERF_Event', 1, (8, 1, 0, 0), t), ev('PERF_STK_UHdr', 0, (1, 2, 0, 0), t), ev('PERF_STK_UData', 0, (t, t + 1, 0, 0), t),
                   ev('PERF_Event', 2, (8, 0, 0, 0), t)],
        'gstring+dlopen': [ev('TRACE_STRING_GLOBAL', 3, tid=t, data=B.le(0, 8) + B.le(500 + t, 8) + S(b'/lib%d' % t)[:16]),
                           ev('DBG_DYLD_TIMING_DLOPEN', 1, (0, 500 + t, 1, 0), t), ev('DBG_DYLD_TIMING_DLOPEN', 2, (0, 0xbeef, 0, 0), t)],
        'stat+3-record-lookup': [ev('BSC_stat64', 1, (1, 2, 0, 0), t), ev('VFS_LOOKUP', 1, tid=t, data=B.le(t, 8) + b'/' + b'a' * 23),
                                 ev('VFS_LOOKUP', 0, tid=t, data=b'b' * 32), ev('VFS_LOOKUP', 2, tid=t, data=S(b'c' * 5)),
                                 ev('BSC_stat64', 2, (0, 0, 0, 0), t)],
        'vmfault': [ev('MACH_vmfault', 1, (0x1000 * t, 0x2000, 0, 0), t),
                    ev('RealFaultAddressInternal', 0, (0x1000 * t, (3 << 8) | 2, 5, pid), t), ev('MACH_vmfault', 2, (0, 0, 0, 2), t)],
        'launch': [ev('DBG_DYLD_TIMING_LAUNCH_EXECUTABLE', 1, (0, 0x4000 + t, 0, 0), t), ev('DYLD_uuid_map_a', 0, (t, t, 0x1000 * t, 3), t),
                   ev('DBG_DYLD_TIMING_LAUNCH_EXECUTABLE', 2, (0, 0, 0, 0), t)],
        # announces a child whose thread id is the id of another participating thread (ids are recycled / the child is already running)
        'newthread-of-sibling': [ev('TRACE_DATA_NEWTHREAD', 0, (t % 3 + 1, pid + 5, 0, 0), t), ev('TRACE_STRING_NEWTHREAD', 0, tid=t, data=S(nm + b'c'))],
        # a call whose START fell before the capture: only its END is in the stream (the head of any real trace)
        'orphan-end': [ev('BSC_getpid', 2, (0, 7 * t, 0, 0), t), ev('BSC_getuid', 2, (0, t, 0, 0), t)],
        # byte-for-byte the same records on every thread (only the thread id differs): two threads doing the same thing in the same tick
        'same-read': [ev('BSC_read', 1, (3, 0x7000, 64, 0), t), ev('MACH_vm_page_release', 0, (1, 1, 1, 1), t), ev('BSC_read', 2, (0, 63, 0, 0), t)],
        # the buffer-overflow marker the kernel writes on whichever thread happens to run, inside a call
        'lost-events-marker': [ev('BSC_getppid', 1, tid=t), ev('TRACE_LOST_EVENTS', 0, (0, 0, 0, 0), t), ev('BSC_getppid', 2, (0, 1, 0, 0), t)],
        # declares a child whose THREAD id is the same number as the PROCESS id a sibling's exec pair names (ids are only numbers)
        'newthread-tid-like-a-pid': [ev('TRACE_DATA_NEWTHREAD', 0, (10 * (t % 3 + 1) + 1, pid + 7, 0, 0), t), ev('TRACE_STRING_NEWTHREAD', 0, tid=t, data=S(nm + b'k'))],
        # a sampler's thread-data record about the thread a SIBLING's new-thread pair announces (two declarations about one thread id:
        # which one the thread map ends with depends on the order - that key is not compared - but never the learned NAMES)
        'thread-data-about-a-siblings-child': [ev('PERF_THD_Data', 0, (900 + t, 100 + (t % 3 + 1), 0, 1), t), ev('BSC_getppid', 1, tid=t),
                                               ev('BSC_getppid', 2, (0, 1, 0, 0), t)],
        # records whose event id no table names (all four qualifiers) inside a call of the thread
        'call-with-nameless-records': [ev('BSC_getegid', 1, tid=t), ev(0xdead0000, 0, (t, 1, 1, 1), t), ev(0xdead0010, 1, (t, 2, 2, 2), t), ev(0xdead0010, 2, (t, 3, 3, 3), t),
                                       ev(0xdead0020, 3, (t, 4, 4, 4), t), ev('BSC_getegid', 2, (0, 1, 0, 0), t)],
        # the thread that reaps a sibling: its terminate record names ANOTHER participating thread
        'reaps-a-sibling': [ev('BSC_getgid', 1, tid=t), ev('TRACE_DATA_THREAD_TERMINATE', 0, (t % 3 + 1, 0, 0, 0), t), ev('BSC_getgid', 2, (0, 1, 0, 0), t)],
        # lone records (NONE / ALL) of calls that other threads make as START..END pairs
        'lone-records-of-calls': [ev('BSC_getppid', 0, (0, 0, 0, 0), t), ev('BSC_getpid', 3, (0, 0, 0, 0), t), ev('BSC_getuid', 0, (0, 0, 0, 0), t)],
        # inside execve: announces a sibling thread as its exec copy (word 2 of the new-thread record set), then goes on; and the END of an
        # execve whose START this thread never logged (the copy returns from the call the old thread started)
        'exec-copy-of-sibling': [ev('BSC_execve', 1, (1, 2, 3, 4), t), ev('TRACE_DATA_NEWTHREAD', 0, (t % 3 + 1, pid + 6, 1, 9), t),
                                 ev('VFS_LOOKUP', 3, tid=t, data=B.le(t, 8) + S(b'/old%d' % t)[:24]), ev('BSC_execve', 2, (0, 0, 0, 0), t)],
        'open-then-orphan-execve-end': [ev('BSC_open', 1, (1, 0, 0, 0), t), ev('VFS_LOOKUP', 3, tid=t, data=B.le(t, 8) + S(b'/q%d' % t)[:24]),
                                        ev('BSC_open', 2, (0, 3, 0, 0), t), ev('BSC_execve', 2, (0, 0, 0, 0), t)],
        'exec+rename': [ev('TRACE_DATA_EXEC', 0, (pid + 2, 0, 0, 0), t), ev('BSC_getpid', 1, tid=t), ev('TRACE_STRING_EXEC', 0, tid=t, data=S(nm + b'y')),
                        ev('BSC_getpid', 2, (0, pid, 0, 0), t)],
    }


NAMES = list(programs(1))


def run(seq, prefilled=False):
    """prefilled: False (empty tables, feed()), True (thread map populated at construction, feed()), 'gen' (empty tables, every
    record stamped with the SAME tick, through feed_generator - the lazy entry point the facade uses)."""
    tp, pn = ({1: 91, 2: 92, 3: 93}, {91: 'q1', 92: 'q2', 93: 'q3'}) if prefilled is True else ({}, {})
    if prefilled == 'one-process':
        # the thread map puts all participating threads into ONE process - the one thread 1's exec pair names
        tp, pn = {1: 11, 2: 11, 3: 11}, {11: 'shared'}
    p = TracesParser(E.codes(), tp, pn)
    per = {}

    def note(r):
        per.setdefault(r.ktraces[0].tid, []).append(
            (type(r).__name__, str(r), tuple((x.eventid, x.func_qualifier, x.data, x.tid) for x in r.ktraces)))
    if prefilled == 'file':
        # a version-2 dump file through PyKdebugParser.traces; every thread stamps its records with its OWN clock, and the clocks
        # are 2^40 ticks apart (per-CPU buffers merged without regard to the stamps)
        import io
        from pykdebugparser.pykdebugparser import PyKdebugParser
        f = PyKdebugParser()
        clocks, recs = {}, []
        for e in seq:
            clocks[e.tid] = clocks.get(e.tid, (4 - e.tid) << 40) + 1
            recs.append(B.rec(clocks[e.tid], tid=e.tid, debugid=e.debugid, data=e.data))
        blob = B.v2([], 0, recs)
        for r in f.traces(io.BytesIO(blob), _tcodes()):
            note(r)
        # the same file listed with a thread filter for each participating thread: exactly that thread's traces
        for tid in sorted(clocks):
            f2 = PyKdebugParser()
            f2.filter_tid = tid
            only = [(type(r).__name__, str(r), tuple((x.eventid, x.func_qualifier, x.data, x.tid) for x in r.ktraces)) for r in f2.traces(io.BytesIO(blob), _tcodes())]
            if only != per.get(tid, []):
                per.setdefault(('thread-filter', tid), []).append(('differs', len(only), len(per.get(tid, []))))
        return per, dict(f.threads_pids), dict(f.pids_names), {}, {}
    if prefilled == 'gen':
        for r in p.feed_generator(e._replace(timestamp=5) for e in seq):
            note(r)
    else:
        for i, e in enumerate(seq):
            r = p.feed(e._replace(timestamp=i))
            if r is not None:
                note(r)
    return per, dict(tp), dict(pn), dict(p.tids_names), dict(p.global_strings)


_SOLO = {}
_TC = None


def _tcodes():
    global _TC
    if _TC is None:
        _TC = dict(E.codes())
    return _TC


def solo(name, t, trunc, prefilled=False):
    k = (name, t, trunc, prefilled)
    if k not in _SOLO:
        prog = programs(t)[name][:trunc]
        _SOLO[k] = (prog, run(prog, prefilled))
    return _SOLO[k]


def judge(combo, schedule, trunc, prefilled=False):
    """combo: tuple of program names for threads 1..n; schedule: tuple of thread indices."""
    progs = []
    base_tp, base_pn = ({1: 91, 2: 92, 3: 93}, {91: 'q1', 92: 'q2', 93: 'q3'}) if prefilled is True else ({1: 11, 2: 11, 3: 11}, {11: 'shared'}) if prefilled == 'one-process' else ({}, {})
    exp_per, exp_tp, exp_pn, exp_tn, exp_gs = {}, dict(base_tp), dict(base_pn), {}, {}
    contested = set()       # thread ids that two programs declare differently: the last declaration wins, by design
    for i, name in enumerate(combo):
        prog, (per, tp, pn, tn, gs) = solo(name, i + 1, trunc, prefilled)
        progs.append(prog)
        exp_per.update(per)
        # what this thread's own program learned = its changes relative to the initial tables
        learned = {k: v for k, v in tp.items() if base_tp.get(k) != v}
        contested |= {k for k, v in learned.items() if k in exp_tp and exp_tp[k] != v and base_tp.get(k) != exp_tp[k]}
        exp_tp.update(learned)
        exp_pn.update({k: v for k, v in pn.items() if base_pn.get(k) != v})
        exp_tn.update(tn)
        exp_gs.update(gs)
    pos = [0] * len(progs)
    merged = []
    for th in schedule:
        merged.append(progs[th][pos[th]])
        pos[th] += 1
    try:
        per, tp, pn, tn, gs = run(merged, prefilled)
    except Exception as ex:
        return ('interleaving-raised:' + type(ex).__name__, {'error': repr(ex)[:200]})
    if per != exp_per:
        for t in sorted(set(per) | set(exp_per), key=repr):
            if per.get(t) != exp_per.get(t):
                if isinstance(t, tuple):
                    return ('thread-filtered-listing-is-not-the-thread-projection', {'thread': t[1], 'detail': repr(per.get(t))[:200]})
                return ('per-thread-traces-depend-on-interleaving',
                        {'thread': t, 'program': combo[t - 1] if t <= len(combo) else '?',
                         'got': [x[1] for x in per.get(t, [])], 'solo': [x[1] for x in exp_per.get(t, [])]})
    if pn != exp_pn:
        return ('learned-process-names-depend-on-interleaving', {'got': repr(pn), 'union_of_solo_runs': repr(exp_pn)})
    if {k: v for k, v in tp.items() if k not in contested} != {k: v for k, v in exp_tp.items() if k not in contested}:
        return ('learned-thread-table-depends-on-interleaving', {'got': repr(tp), 'union_of_solo_runs': repr(exp_tp)})
    if tn != exp_tn or gs != exp_gs:
        return ('learned-names-or-strings-depend-on-interleaving', {'got': repr((tn, gs)), 'union_of_solo_runs': repr((exp_tn, exp_gs))})
    return None


class C05(Check):
    pid = 'C05'
    level = 'model_checking'
    rule = ('schedules: for every ordered pair (and, per tier, triple) of per-thread programs from a library of 20 (syscall with '
            'lookup, NEWTHREAD data+string, EXEC data+string, nested syscalls, thread name + terminate, sampler window, global '
            'string + dlopen, 3-record lookup inside stat64, page fault with nested record, launch with nested map, EXEC pair with '
            'an unrelated syscall in between, NEWTHREAD pair announcing a sibling participant\'s thread id, two ENDs whose STARTs fell before the capture, a read whose records are byte-identical on every thread, a call interrupted by the lost-events marker of the kernel, a NEWTHREAD pair whose thread id is numerically the process id a sibling names), each parameterised by its own tid/pid/names, EVERY interleaving (merge preserving '
            'each program\'s order) is fed to a fresh TracesParser - once built with empty tables, once with a thread map already populated at construction (pairs also with a thread map that puts all threads into the ONE process thread 1 execs into), and once through feed_generator with every record carrying the same timestamp; every pair also as a version-2 dump FILE through PyKdebugParser.traces with per-thread clocks 2^40 ticks apart (the tables of the facade object are the ones compared; the same file is also listed once per participating thread with the thread filter set). Plus one schedule family with a gap of 600..40 000 foreign records inside an open call, through feed_generator. quick: all pairs (full programs) + all triples of programs '
            'truncated to 2 events; thorough: all pairs (full programs) and all triples of programs truncated to 4 events (the full triples would be 146 million schedules). Oracle: per-thread list of (trace type, '
            'text, window) equals the solo run of that thread\'s program; learned tables equal the union of the solo runs. '
            'states = distinct program combinations; transitions = feeds; non-trivial = schedule with at least one context switch '
            'inside a program (not a concatenation).')
    assumptions = ('programs use only decoders whose text depends on the thread\'s own records (the statement\'s caveat); the one exception, thread-terminate (shows the pid another thread may have declared), is never combined with the program that declares a sibling\'s thread id',
                   'there are no real threads in the library: the explorer is the scheduler because it decides the order in which '
                   'feed() sees the events')

    def bounds(self):
        return {'programs': len(NAMES), 'pairs': len(NAMES) ** 2, 'triples': len(NAMES) ** 3,
                'triple_truncation': 2 if self.tier == 'quick' else 4}

    def shards(self):
        out = [('pairs', ch, None) for ch in chunked(list(itertools.product(NAMES, repeat=2)), 32)]
        # triples: every program cut to its first 2 (quick) / 4 (thorough) records; shards of about equal numbers of schedules
        trunc = 2 if self.tier == 'quick' else 4
        if self.tier == 'quick':
            out += [('triples', ch, trunc) for ch in chunked(list(itertools.product(NAMES, repeat=3)), 128)]
        else:
            import math
            L = {n: min(len(programs(1)[n]), trunc) for n in NAMES}
            cur, weight = [], 0
            for combo in itertools.product(NAMES, repeat=3):
                ls = [L[n] for n in combo]
                w = math.factorial(sum(ls)) // math.prod(math.factorial(x) for x in ls)
                cur.append(combo)
                weight += w
                if weight >= 120000:
                    out.append(('triples', cur, trunc))
                    cur, weight = [], 0
            if cur:
                out.append(('triples', cur, trunc))
        out.append(('long-gap', None, None))
        return out

    def run_long_gap(self, acc):
        """thread 1 is inside a call while thread 2 runs N complete programs (N*k records), fed through feed_generator: thread 1's
        result must be what it is alone. N chosen so that the gap is 500 .. 40 000 records."""
        for name, other in (('newthread', 'exec'), ('exec', 'newthread'), ('exec', 'exec')):
            a = programs(1)[name]
            solo = run(a)
            for reps in (5, 17, 40, 300):
                b = programs(2)[other][:1] * reps          # DATA records only, from another thread
                merged = a[:1] + b + a[1:]
                got = run(merged)
                acc.case(nontrivial=True, transitions=len(merged), state=h64(('gap-data', name, other)), outcome=h64(('gap-data', name, other, reps)))
                if got[0].get(1) != solo[0].get(1) or any(got[2].get(k) != v for k, v in solo[2].items()):
                    acc.violation('learned-process-names-depend-on-interleaving:long-gap', {'programs': ['long-gap', name, other, reps], 'schedule': [], 'trunc': None},
                                  {'foreign_data_records': reps, 'got_names': repr(got[2]), 'solo_names': repr(solo[2])})
        a = programs(1)['nested-syscalls']
        solo_a = run(a)[0]
        for name in ('open+lookup', 'sample', 'exec', 'vmfault'):
            b = programs(2)[name]
            for reps in (200, 3000, 10000):
                merged = a[:2] + b * reps + a[2:]
                p = TracesParser(E.codes(), {}, {})
                per = {}
                try:
                    for r in p.feed_generator(e._replace(timestamp=i) for i, e in enumerate(merged)):
                        per.setdefault(r.ktraces[0].tid, []).append((type(r).__name__, str(r), tuple((x.eventid, x.func_qualifier, x.data, x.tid) for x in r.ktraces)))
                    bad = None if per.get(1) == solo_a.get(1) else ('per-thread-traces-depend-on-interleaving:long-gap', {'program': name, 'foreign_records': len(b) * reps,
                                                                       'got': [x[1] for x in per.get(1, [])], 'solo': [x[1] for x in solo_a.get(1, [])]})
                except Exception as ex:
                    bad = ('interleaving-raised:' + type(ex).__name__, {'error': repr(ex)[:200]})
                acc.case(nontrivial=True, transitions=len(merged), state=h64(('gap', name)), outcome=h64(('gap', name, reps)))
                if bad:
                    acc.violation(bad[0], {'programs': ['long-gap', name, reps], 'schedule': [], 'trunc': None}, bad[1])

    def run_shard(self, desc, acc):
        if desc[0] == 'long-gap':
            return self.run_long_gap(acc)
        _, combos, trunc = desc
        for combo in combos:
            if 'reaps-a-sibling' in combo and any(x in combo for x in ('newthread-of-sibling', 'exec-copy-of-sibling', 'threadname+terminate', 'thread-data-about-a-siblings-child')):
                # same caveat: the terminate record of a sibling renders the pid / name other threads may have declared for it
                continue
            if ('newthread-of-sibling' in combo or 'exec-copy-of-sibling' in combo) and 'threadname+terminate' in combo:
                # the statement's caveat: thread-terminate renders the pid from the table another thread's NEWTHREAD record
                # writes (by design); these two programs are not combined
                continue
            lens = [len(programs(i + 1)[n][:trunc]) for i, n in enumerate(combo)]
            for sched in interleavings(lens):
                bad = judge(combo, sched, trunc) or judge(combo, sched, trunc, prefilled=True) or judge(combo, sched, trunc, prefilled='gen')
                if not bad and desc[0] == 'pairs':
                    bad = judge(combo, sched, trunc, prefilled='file') or judge(combo, sched, trunc, prefilled='one-process')
                switches = sum(1 for a, b in zip(sched, sched[1:]) if a != b)
                acc.case(nontrivial=switches >= len(combo), transitions=len(sched), state=h64(combo), outcome=h64((combo, bad is None)))
                if bad:
                    acc.violation(bad[0] + ':' + '+'.join(sorted(set(combo))) if bad[0].startswith('interleaving-raised') else bad[0],
                                  {'programs': list(combo), 'schedule': list(sched), 'trunc': trunc}, bad[1])
                elif acc.want_sample() and switches >= 3:
                    acc.sample({'programs': list(combo), 'schedule_thread_indices': list(sched)})

    def replay(self, case):
        if case['programs'] and case['programs'][0] == 'long-gap':
            from mc.run import Acc
            acc = Acc()
            self.run_long_gap(acc)
            return [(sig, v['cases'][0][1]) for sig, v in acc.violations.items()]
        bad = judge(tuple(case['programs']), tuple(case['schedule']), case['trunc']) or \
            judge(tuple(case['programs']), tuple(case['schedule']), case['trunc'], prefilled=True) or \
            judge(tuple(case['programs']), tuple(case['schedule']), case['trunc'], prefilled='gen') or \
            ((judge(tuple(case['programs']), tuple(case['schedule']), case['trunc'], prefilled='file') or
              judge(tuple(case['programs']), tuple(case['schedule']), case['trunc'], prefilled='one-process')) if len(case['programs']) == 2 else None)
        if not bad:
            return []
        sig = bad[0] + ':' + '+'.join(sorted(set(case['programs']))) if bad[0].startswith('interleaving-raised') else bad[0]
        return [(sig, bad[1])]


if __name__ == '__main__':
    main(C05)
