"""C13 — trace filters commute with decoding and leave no residue in the parser.

(A) streams of complete per-thread operations x all filter configurations: filtered listing == unfiltered listing restricted
    to the traces whose first event satisfies the filter.
(B) request histories: all sequences of <=3 requests {traces, formatted_traces, callstacks} on ONE PyKdebugParser: every
    request returns what a fresh parser returns, and the caller's filter settings are left as set (value and type)."""
import io
import itertools

from mc.run import Check, main, h64
from mc import build as B
from mc import ev as E
from mc.space import seqs, chunked
from pykdebugparser.pykdebugparser import PyKdebugParser

MAP = [(1, 10, 'A'), (2, 0, 'B')]      # thread 2 belongs to pid 0 (kernel_task's pid)
PIDOF = {1: 10, 2: 0}
NAMEOF = {10: 'A', 0: 'B'}


def R(name, q, args=(0, 0, 0, 0), tid=1, ts=1, data=None):
    return B.rec(ts, args, tid, E.n2i(name) | q, data=data)


def ops(t):
    return {
        'open+lookup': lambda ts: [R('BSC_open', 1, (1, 0, 0, 0), t, ts), R('VFS_LOOKUP', 3, tid=t, ts=ts + 1, data=B.lookup_chunks(5, '/x')[0][0]),
                                   R('BSC_open', 2, (0, 3, 0, 0), t, ts + 2)],
        'getpid': lambda ts: [R('BSC_getpid', 1, tid=t, ts=ts), R('BSC_getpid', 2, (0, 5, 0, 0), t, ts + 1)],
        'reply_port': lambda ts: [R('MSC_mach_reply_port', 1, tid=t, ts=ts), R('MSC_mach_reply_port', 2, (7, 0, 0, 0), t, ts + 1)],
        'trace-exec': lambda ts: [R('TRACE_DATA_EXEC', 0, (42, 0, 0, 0), t, ts)],
        'lone-lookup': lambda ts: [R('VFS_LOOKUP', 3, tid=t, ts=ts, data=B.lookup_chunks(6, '/y')[0][0])],
        'dyld-map-b': lambda ts: [R('DYLD_uuid_map_b', 0, (1, 0, 0, 0), t, ts)],
        'mmap': lambda ts: [R('BSC_mmap', 1, (0, 4096, 3, 2), t, ts), R('BSC_mmap', 2, (0, 0x1000, 0, 0), t, ts + 1)],
        # the thread's own process is renamed by an exec pair emitted by that thread itself
        'exec-rename': lambda ts: [R('TRACE_DATA_EXEC', 0, (PIDOF[t], 0, 0, 0), t, ts),
                                   R('TRACE_STRING_EXEC', 0, tid=t, ts=ts + 1, data=(b'Z%d' % t).ljust(32, b'\0'))],
        # the exec records sit inside the execve() window: the call starts in the old process and is reported in the new one
        'execve-renaming': lambda ts: [R('BSC_execve', 1, (1, 2, 3, 0), t, ts), R('TRACE_DATA_EXEC', 0, (PIDOF[t], 0, 0, 0), t, ts + 1),
                                       R('TRACE_STRING_EXEC', 0, tid=t, ts=ts + 2, data=(b'Z%d' % t).ljust(32, b'\0')),
                                       R('BSC_execve', 2, (0, 0, 0, 0), t, ts + 3)],
        # a long call: 150 complete mach traps nested inside one open() (a window far longer than any other op's)
        'open-with-150-nested-traps': lambda ts: [R('BSC_open', 1, (1, 0, 0, 0), t, ts), R('VFS_LOOKUP', 3, tid=t, ts=ts + 1, data=B.lookup_chunks(5, '/long')[0][0])] +
                                                 [R('MSC_mach_reply_port', 1 + (i % 2), (7, 0, 0, 0), t, ts + 2 + i) for i in range(300)] +
                                                 [R('BSC_open', 2, (0, 3, 0, 0), t, ts + 302)],
        # the two records of one lookup separated by records of other classes of the same thread (a wait, a complete mach trap)
        'open+lookup-split-by-foreign-records': lambda ts: [
            R('BSC_open', 1, (1, 0, 0, 0), t, ts), R('VFS_LOOKUP', 1, tid=t, ts=ts + 1, data=B.lookup_chunks(5, '/a/path/of/more/than/24/bytes')[0][0]),
            R('MACH_WAIT', 0, (0x10, 0, 0, 0), t, ts + 2), R('MSC_mach_reply_port', 1, tid=t, ts=ts + 3), R('MSC_mach_reply_port', 2, (7, 0, 0, 0), t, ts + 4),
            R('VFS_LOOKUP', 2, tid=t, ts=ts + 5, data=B.lookup_chunks(5, '/a/path/of/more/than/24/bytes')[1][0]), R('BSC_open', 2, (0, 3, 0, 0), t, ts + 6)],
        # windows of different classes on one thread that overlap without nesting: fault START | open START | fault END | open END
        'open-overlapping-a-fault': lambda ts: [
            R('MACH_vmfault', 1, (0x1000, 1, 0, 0), t, ts), R('BSC_open', 1, (1, 0, 0, 0), t, ts + 1), R('VFS_LOOKUP', 3, tid=t, ts=ts + 2, data=B.lookup_chunks(5, '/ov')[0][0]),
            R('MACH_vmfault', 2, (0, 0, 0, 2), t, ts + 3), R('BSC_open', 2, (0, 3, 0, 0), t, ts + 4)],
        'image': lambda ts: [R('DYLD_uuid_map_a', 0, (0x11 * t, 0x22, 0x1000 * t, 3), t, ts)],
        'dlopen-500': lambda ts: [R('DBG_DYLD_TIMING_DLOPEN', 1, (0, 500, 1, 0), t, ts), R('DBG_DYLD_TIMING_DLOPEN', 2, (0, 0xbeef, 0, 0), t, ts + 1)],
        'announce-500': lambda ts: [R('TRACE_STRING_GLOBAL', 3, tid=t, ts=ts, data=B.global_string_chunks(0, 500, '/usr/lib/libz')[0][0])],
        'terminate-7': lambda ts: [R('TRACE_DATA_THREAD_TERMINATE', 0, (7, 0, 0, 0), t, ts)],
        'terminate-self': lambda ts: [R('TRACE_DATA_THREAD_TERMINATE', 0, (t, 0, 0, 0), t, ts)],
        # decodable records of the sampler's thread subclass (0x2501) other than the thread-data record, and of the mach class, between
        # the two halves of a declaration
        'cswitch': lambda ts: [R('PERF_THD_CSwitch', 0, (t, 10, 0, 0), t, ts)],
        'exec-rename-with-a-mach-record-between': lambda ts: [R('TRACE_DATA_EXEC', 0, (PIDOF[t], 0, 0, 0), t, ts), R('MACH_WAIT', 0, (0x10, 0, 0, 0), t, ts + 1),
                                                              R('TRACE_STRING_EXEC', 0, (0, 0, 0, 0), t, ts + 2, data=b'Z1'.ljust(32, b'\0'))],
        'name-self': lambda ts: [R('TRACE_STRING_THREADNAME', 0, tid=t, ts=ts, data=b'worker'.ljust(32, b'\0'))],
        'newthread-pair': lambda ts: [R('TRACE_DATA_NEWTHREAD', 0, (7, 70, 0, 0), t, ts), R('TRACE_STRING_NEWTHREAD', 0, tid=t, ts=ts + 1, data=b'my kid'.ljust(32, b'\0'))],     # a name with a blank
        'getpid@7': lambda ts: [R('BSC_getpid', 1, tid=7, ts=ts), R('BSC_getpid', 2, (0, 5, 0, 0), 7, ts + 1)],
        'read-end-only': lambda ts: [R('BSC_read', 2, (0, 63, 0, 0), t, ts)],       # its START fell before the capture
        'read-start-only': lambda ts: [R('BSC_read', 1, (3, 0x7000, 64, 0), t, ts)],  # its END falls after the capture
        'sample': lambda ts: [R('PERF_Event', 1, (8, 1, 0, 0), t, ts), R('PERF_STK_UHdr', 0, (1, 2, 0, 0), t, ts + 1),
                              R('PERF_STK_UData', 0, (0x1010, 0x2020, 0, 0), t, ts + 2), R('PERF_Event', 2, (8, 0, 0, 0), t, ts + 3)],
    }


OPNAMES = list(ops(1))
CORE_OPS = ['open+lookup', 'getpid', 'reply_port', 'trace-exec', 'lone-lookup', 'dyld-map-b', 'mmap', 'exec-rename', 'execve-renaming']


# operations through which one thread's traces depend on another thread's records
CROSS_ALPHABET = [('announce-500', 1), ('announce-500', 2), ('dlopen-500', 1), ('dlopen-500', 2), ('newthread-pair', 1), ('newthread-pair', 2),
                  ('getpid@7', 1), ('exec-rename', 1), ('getpid', 1), ('getpid', 2), ('open+lookup', 2), ('terminate-7', 1),
                  ('terminate-self', 1), ('terminate-self', 2), ('cswitch', 1), ('exec-rename-with-a-mach-record-between', 1)]       # a thread goes on emitting records after its own terminate record


DISPLAY_OFF = [False]     # set while the cross-thread commutation is repeated with the process / thread / timestamp columns switched off
NOMAP = [False]    # set while request histories are repeated on dumps whose header carries NO thread map (the stream declares its threads itself)
V3 = [False]       # set by the 'A+' shard while it repeats the commutation check on version-3 dumps that also carry log records


def build_stream(opseq):
    recs = []
    ts = 1
    for name, t in opseq:
        r = ops(t)[name](ts)
        recs += r
        ts += len(r)
    if V3[0]:
        logs = B.v3_block(B.TAG_LOG_EVENTS, B.bplist({'Events': [
            {'cm': 1, 't': 'logEvent', 's': i, 'tid': 40 + i, 'ns': 5, 'mct': 6 + i, 'b': b'B' * 16, 'piu': b'P' * 16,
             'ud': {'sec': 1600000000, 'usec': 7}, 'utz': {'mw': 0, 'dt': 0}} for i in range(2)]}))
        sidx = B.v3_block(B.TAG_LOG_STRINGS, B.bplist({'StringIndex': {'hello': 1, 'proc': 2}}))
        return B.v3([] if NOMAP[0] else MAP, [recs[:len(recs) // 2], recs[len(recs) // 2:]], [sidx, logs])
    return B.v2([] if NOMAP[0] else MAP, 0, recs)


CLASSES = [1, 3, 4, 7, 0x1f]


def class_lists():
    out = [()]
    for n in (1, 2):
        out += list(itertools.combinations(CLASSES, n))
    return out


SUBCLASS_LISTS = [(), (0x40c,), (0x40d,)]
TIDS = [None, 1, 2]
PROCS = [None, 'A', '0', 'zz', 'Z1']


def configure(f, cfg, as_tuple=False):
    tid, proc, cl, sc = cfg
    f.filter_tid = tid
    f.filter_process = proc
    f.filter_class = tuple(cl) if as_tuple else list(cl)
    f.filter_subclass = tuple(sc) if as_tuple else list(sc)
    f.color = False
    if DISPLAY_OFF[0]:
        # display switches do not take part in selecting traces
        f.show_process = f.show_tid = f.show_timestamp = False


def request_lazy(f, blob, kind, tc):
    """make the request now, read it later: returns a function that reads the answer."""
    if kind == 'traces':
        g = f.traces(io.BytesIO(blob), tc)
        return lambda: [(t.ktraces[0].tid, t.ktraces[0].eventid, str(t), t.ktraces[0].timestamp) for t in g]
    if kind == 'formatted_traces':
        g = f.formatted_traces(io.BytesIO(blob), tc)
        return lambda: list(g)
    g = f.callstacks(io.BytesIO(blob), tc)
    return lambda: [(c.timestamp, c.tid, tuple(tuple(fr) for fr in c.frames)) for c in g]


def request(f, blob, kind, tc):
    if kind == 'traces':
        return [(t.ktraces[0].tid, t.ktraces[0].eventid, str(t), t.ktraces[0].timestamp) for t in f.traces(io.BytesIO(blob), tc)]
    if kind == 'traces+process':
        # unfiltered reference run: each trace with the process (pid, name) its thread has WHEN THE TRACE IS REPORTED
        out = []
        for t in f.traces(io.BytesIO(blob), tc):
            pid = f.threads_pids.get(t.ktraces[0].tid, -1)
            out.append((t.ktraces[0].tid, t.ktraces[0].eventid, str(t), t.ktraces[0].timestamp, pid, f.pids_names.get(pid, '')))
        return out
    if kind == 'formatted_traces':
        return list(f.formatted_traces(io.BytesIO(blob), tc))
    return [(c.timestamp, c.tid, tuple(tuple(fr) for fr in c.frames)) for c in f.callstacks(io.BytesIO(blob), tc)]


_TC = None


def tcodes():
    global _TC
    if _TC is None:
        _TC = dict(E.codes())
    return _TC


def satisfies(trace, cfg):
    ttid, eid = trace[0], trace[1]
    tid, proc, cl, sc = cfg
    if tid is not None and ttid != tid:
        return False
    if proc is not None and proc not in (str(trace[4]), trace[5]):
        return False
    if cl or sc:
        if not ((eid >> 24) in cl or (eid >> 16) in sc):
            return False
    return True


def judge_commute_lines(opseq, cfg):
    """the same commutation on the formatted lines (process column included): the lines of the filtered request are the lines of the
    unfiltered request whose traces satisfy the filter."""
    blob = build_stream(opseq)
    f0 = PyKdebugParser()
    configure(f0, (None, None, (), ()))
    try:
        trs = request(f0, blob, 'traces+process', tcodes())
        f1 = PyKdebugParser()
        configure(f1, (None, None, (), ()))
        lines = list(f1.formatted_traces(io.BytesIO(blob), tcodes()))
    except Exception as ex:
        return (f'unfiltered-request-raised:{type(ex).__name__}', {'error': repr(ex)[:200]})
    if len(lines) != len(trs):
        return ('formatted-lines-not-one-per-trace', {'lines': len(lines), 'traces': len(trs)})
    exp = [line for tr, line in zip(trs, lines) if satisfies(tr, cfg)]
    f = PyKdebugParser()
    configure(f, cfg)
    try:
        got = list(f.formatted_traces(io.BytesIO(blob), tcodes()))
    except Exception as ex:
        return (f'filtered-request-raised:{type(ex).__name__}', {'error': repr(ex)[:200]})
    if got != exp:
        return ('filtered-lines-differ-from-restricted-unfiltered', {'got': got[:3], 'expected': exp[:3]})
    return None


def judge_commute(opseq, cfg, as_tuple):
    blob = build_stream(opseq)
    f0 = PyKdebugParser()
    configure(f0, (None, None, (), ()))
    full = request(f0, blob, 'traces+process', tcodes())
    exp = [t[:4] for t in full if satisfies(t, cfg)]
    f = PyKdebugParser()
    configure(f, cfg, as_tuple)
    try:
        got = request(f, blob, 'traces', tcodes())
    except Exception as ex:
        return (f'filtered-request-raised:{type(ex).__name__}' + (':tuple-filter' if as_tuple else ''), {'error': repr(ex)[:200]})
    if got != exp:
        extra = [g for g in got if g not in exp]
        helper = extra and all((g[1] >> 24) in (3, 7) and (g[1] >> 24) not in cfg[2] for g in extra)
        return ('helper-class-reported' if helper and len(got) > len(exp) else 'filtered-listing-differs-from-restricted-unfiltered',
                {'got': [g[2] for g in got], 'expected': [g[2] for g in exp]})
    return None


def judge_callstacks_commute():
    """the call-stack listing under a thread / process filter = the unfiltered listing restricted to the entries of that thread /
    process, on a dump in which samples carry thread-data records about ANOTHER thread (a sampling thread records other threads)."""
    def R(name, q, args, tid, ts):
        return B.rec(ts, args, tid, E.n2i(name) | q)

    def sample(tid, ts, flags, about, words):
        out = [R('PERF_Event', 1, (flags, 1, 0, 0), tid, ts)]
        if about is not None:
            out.append(R('PERF_THD_Data', 0, (about[0], about[1], 0, 1), tid, ts + 1))
        out += [R('PERF_STK_UHdr', 0, (1, len(words), 0, 0), tid, ts + 2), R('PERF_STK_UData', 0, tuple(words) + (0,) * (4 - len(words)), tid, ts + 3),
                R('PERF_Event', 2, (flags, 0, 0, 0), tid, ts + 4)]
        return out
    # the thread-data records repeat what the thread map says (pid of the thread they are about), so the tables do not change
    recs = sample(1, 10, 9, (20, 2), (0x1010, 0x1020)) + sample(2, 20, 9, (20, 2), (0x2010,)) + sample(1, 30, 8, None, (0x1030,)) + \
        sample(2, 40, 9, (10, 1), (0x2040, 0x2050)) + sample(3, 50, 9, (10, 1), (0x3010,))
    blob = B.v2([(1, 10, 'A'), (2, 20, 'B')], 0, recs)
    tc = tcodes()

    def ask(tid, proc):
        f = PyKdebugParser()
        f.filter_tid, f.filter_process = tid, proc
        out = []
        for c in f.callstacks(io.BytesIO(blob), tc):
            pid = f.threads_pids.get(c.tid, -1)
            out.append((c.timestamp, c.tid, tuple(tuple(fr) for fr in c.frames), pid, f.pids_names.get(pid, '')))
        return out
    bad = []
    try:
        full = ask(None, None)
        if [x[:2] for x in full] != [(10, 1), (20, 2), (30, 1), (40, 2), (50, 3)]:
            bad.append(('callstack-listing-entries-not-those-of-the-emitting-threads', {'got': [x[:2] for x in full]}))
        for tid, proc in ((1, None), (2, None), (3, None), (4, None), (None, 'A'), (None, 'B'), (None, '10'), (None, '20'), (1, 'A'), (1, 'B'), (2, '20')):
            exp = [x for x in full if (tid is None or x[1] == tid) and (proc is None or proc in (str(x[3]), x[4]))]
            got = ask(tid, proc)
            if got != exp:
                bad.append(('filtered-callstack-listing-differs-from-restricted-unfiltered', {'filter_tid': tid, 'filter_process': proc, 'got': [x[:2] for x in got], 'expected': [x[:2] for x in exp]}))
                break
    except Exception as ex:
        bad.append(('callstack-request-raised:' + type(ex).__name__, {'error': repr(ex)[:200]}))
    return bad


REQUESTS = ['traces', 'formatted_traces', 'callstacks']
HIST_STREAMS = [
    (('sample', 1), ('image', 1)),
    (('image', 1), ('sample', 1), ('image', 2)),
    (('open+lookup', 1), ('getpid', 2), ('trace-exec', 1)),
    (('sample', 2), ('open+lookup', 1)),
    (('lone-lookup', 1), ('mmap', 1), ('reply_port', 2)),
    (('image', 2), ('sample', 1), ('dyld-map-b', 1)),
    # text used before the record that announces it: a second pass on the same object must not know more than the first
    (('dlopen-500', 1), ('announce-500', 1), ('dlopen-500', 2)),
    (('terminate-self', 1), ('name-self', 1), ('getpid', 1)),
    (('getpid@7', 1), ('newthread-pair', 1), ('getpid@7', 1)),
    # a dump cut in the middle of operations: begins with an END whose START is missing, ends with a START whose END is missing
    (('read-end-only', 1), ('getpid', 1), ('read-start-only', 1)),
    (('read-end-only', 2), ('open+lookup', 1), ('read-start-only', 2), ('read-start-only', 1)),
    # the stream changes the tables while it is decoded (a rename, a new thread): a later request starts from the dump's own map again
    (('getpid', 1), ('exec-rename', 1), ('getpid', 1), ('newthread-pair', 2), ('getpid@7', 1)),
]


def strip_attribution(obs):
    return [(ts, tid, tuple((fr[0],) for fr in frames)) for ts, tid, frames in obs]


def judge_lazy(si, cfg, hist, reverse):
    """all requests of the history are MADE on one object before any of them is read; then they are read one after the other
    (in the order made, or in reverse): each answer equals the answer of a fresh object."""
    blob = build_stream(HIST_STREAMS[si])
    f = PyKdebugParser()
    configure(f, cfg, False)
    try:
        readers = [request_lazy(f, blob, kind, tcodes()) for kind in hist]
        order = list(range(len(hist)))[::-1] if reverse else list(range(len(hist)))
        got = {}
        for i in order:
            got[i] = readers[i]()
    except Exception as ex:
        return (f'repeated-request-raised:{type(ex).__name__}', {'error': repr(ex)[:200], 'lazy': True})
    done = []
    for i in order:
        fresh = PyKdebugParser()
        configure(fresh, cfg, False)
        exp = request(fresh, blob, hist[i], tcodes())
        if got[i] != exp:
            if hist[i] == 'callstacks' and 'callstacks' in done and strip_attribution(got[i]) == strip_attribution(exp):
                return ('callstacks-image-lists-persist-across-requests', {'step': i, 'got': repr(got[i])[:300], 'fresh': repr(exp)[:300]})
            return ('repeated-request-differs-from-first:requests-made-before-any-was-read', {'request': hist[i], 'index': i, 'read_in_reverse': reverse,
                                                                                             'got': repr(got[i])[:300], 'fresh': repr(exp)[:300]})
        done.append(hist[i])
    return None


def judge_history(si, cfg, as_tuple, hist):
    blob = build_stream(HIST_STREAMS[si])
    f = PyKdebugParser()
    configure(f, cfg, as_tuple)
    want = (cfg[0], cfg[1], tuple(cfg[2]) if as_tuple else list(cfg[2]), tuple(cfg[3]) if as_tuple else list(cfg[3]))
    # the caller's settings are the caller's also WHILE a request is only partly read, and after it is abandoned
    for kind in set(hist):
        try:
            g = getattr(f, kind)(io.BytesIO(blob), tcodes())
        except Exception as ex:
            return ('request-raised-under-filter-configuration:' + type(ex).__name__, {'request': kind, 'error': repr(ex)[:200], 'as_set': repr(want)})
        try:
            next(iter(g), None)
        except Exception:
            pass
        mid = (f.filter_tid, f.filter_process, f.filter_class, f.filter_subclass)
        if hasattr(g, 'close'):
            g.close()
        del g
        now = (f.filter_tid, f.filter_process, f.filter_class, f.filter_subclass)
        if mid != want or now != want:
            return ('caller-filter-settings-changed:while-a-request-is-partly-read', {'request': kind, 'during': repr(mid), 'after_abandoning': repr(now), 'as_set': repr(want)})
    f = PyKdebugParser()
    configure(f, cfg, as_tuple)
    for step, kind in enumerate(hist):
        fresh = PyKdebugParser()
        configure(fresh, cfg, as_tuple)
        try:
            exp = request(fresh, blob, kind, tcodes())
        except Exception as ex:
            return (f'filtered-request-raised:{type(ex).__name__}' + (':tuple-filter' if as_tuple else ''), {'error': repr(ex)[:200], 'step': step})
        try:
            got = request(f, blob, kind, tcodes())
        except Exception as ex:
            return (f'repeated-request-raised:{type(ex).__name__}', {'error': repr(ex)[:200], 'step': step})
        if got != exp:
            if kind == 'callstacks' and 'callstacks' in hist[:step] and strip_attribution(got) == strip_attribution(exp):
                return ('callstacks-image-lists-persist-across-requests', {'step': step, 'got': repr(got)[:300], 'fresh': repr(exp)[:300]})
            return ('repeated-request-differs-from-first', {'step': step, 'request': kind, 'got': repr(got)[:300], 'fresh': repr(exp)[:300]})
        now = (f.filter_tid, f.filter_process, f.filter_class, f.filter_subclass)
        if now != want or type(now[2]) is not type(want[2]) or type(now[3]) is not type(want[3]):
            return ('caller-filter-settings-changed', {'step': step, 'request': kind, 'now': repr(now), 'as_set': repr(want)})
    return None


class C13(Check):
    pid = 'C13'
    level = 'model_checking'
    rule = ('(A) streams: all sequences of <=2 (quick) / <=3 (thorough) complete operations over 9 kinds (BSD syscall with lookup, '
            'without, second BSD subclass, mach trap, TRACE-class record, stand-alone lookup, DYLD record, an exec pair by which a thread renames its own process, the same pair inside an execve() window) x threads {1,2} in a v2 '
            'dump with a static thread map; x configurations tid {None,1,2} x process {None,name,pid-string,other,the name after the rename} x class list '
            '(all subsets of {1,3,4,7,0x1f} of size <=2) x BSD subclass list {[],[0x40c],[0x40d]} (list-typed; tuple-typed for the '
            'class/subclass dimension). Oracle: filtered traces == unfiltered traces restricted to those whose first event satisfies '
            'the filter, also on version-3 dumps that carry log records, on streams with a 300-record call and with class lists that repeat an entry (the process a trace belongs to is the one its thread has when the trace is reported, read from the unfiltered run). (B) request histories: all sequences of <=3 requests over {traces, formatted_traces, callstacks} on one '
            'parser object x 11 streams (incl. samples before/after image announcements, a string id / thread name / new thread used before the record that announces it, dumps cut in the middle of operations) x class lists x subclass lists x '
            'tid/process {none, set} x {list, tuple}: each request equals the same request on a fresh parser; filter settings equal '
            'and same type afterwards. (X) all sequences of <=2 (quick) / <=3 (thorough) operations over 12 kinds through which one thread depends on what another thread emitted (global string announced by a sibling and used by dlopen, a thread declared by its parent, a process renamed by another thread, a terminate record naming another thread) x tid {None,1,2,7} x process {None, static name, declared name (it contains a blank), each of its two words, declared pid, renamed name} x class lists {[], [4], [0x1f], [4,0x1f]} x subclass lists {[], [0x0302], [0x0702]}: same oracle, on the traces and (subclass list empty) on the formatted lines with their process column. (B) is also run with all requests of a history MADE before any is read, then read in order and in reverse order. (C) the command-line tool: `traces --no-color` with every tid/process/class/subclass option combination prints the library\'s lines for the same settings. states = distinct configurations; transitions = requests; non-trivial = a non-empty filter.')
    assumptions = ('streams do not rely on table updates made by records of a class that a CLASS filter removes, other than the helper classes the statement names '
                   '(kernel trace records, lookups); records of OTHER THREADS that a thread / process filter would hide are relied on (sub-space X): the statement demands identical text',)

    def bounds(self):
        return {'configs': len(TIDS) * len(PROCS) * len(class_lists()) * len(SUBCLASS_LISTS), 'request_histories': 39}

    def shards(self):
        L = 2 if self.tier == 'quick' else 3
        alphabet = [(o, t) for o in CORE_OPS for t in (1, 2)]
        streams = list(seqs(alphabet, L, 1))
        out = [('A', ch) for ch in chunked(streams, 70 if L == 2 else 200)]
        out += [('B', si, as_tuple) for si in range(len(HIST_STREAMS)) for as_tuple in (False, True)]
        out.append(('A+', None))
        out += [('X', ch) for ch in chunked(list(seqs(CROSS_ALPHABET, 2 if self.tier == 'quick' else 3, 1)), 12 if self.tier == 'quick' else 120)]
        out += [('cli', ti, pi) for ti in range(len(TIDS)) for pi in range(len(PROCS))]
        return out

    def run_cli(self, acc, only_tid=None, only_proc=None):
        """`traces --no-color [--tid T] [--process P] [-cf C]... [-sf S]... [--show-tid]` prints exactly the lines the library
        gives for the same settings (so every option reaches the filter it names)."""
        from mc.cli import run_cli
        streams = [(('open+lookup', 1), ('getpid', 2), ('reply_port', 1), ('mmap', 2), ('lone-lookup', 1), ('exec-rename', 2), ('getpid', 2))]
        for opseq in streams:
            blob = build_stream(opseq)
            for tid in (TIDS if only_tid is None else [TIDS[only_tid]]):
                for proc in (PROCS if only_proc is None else [PROCS[only_proc]]):
                    for cl in class_lists():
                        for sc in SUBCLASS_LISTS:
                            for show_tid in ((False, True) if tid is None and proc is None else (False,)):
                                args = ['traces', '--no-color'] + (['--tid', str(tid)] if tid is not None else []) + \
                                       (['--process', proc] if proc is not None else []) + (['--show-tid'] if show_tid else [])
                                for c in cl:
                                    args += ['-cf', hex(c)]
                                for x in sc:
                                    args += ['-sf', str(x)]
                                code, lines, exc = run_cli(blob, args)
                                f = PyKdebugParser()
                                configure(f, (tid, proc, cl, sc))
                                f.show_tid = show_tid
                                exp = list(f.formatted_traces(io.BytesIO(blob)))
                                acc.case(nontrivial=True, transitions=2, state=h64(('cli', tid, proc, cl, sc)))
                                if code != 0 or exc is not None or lines != exp:
                                    acc.violation('cli-traces-differ-from-library', {'kind': 'cli', 'args': args},
                                                  {'exit': code, 'error': repr(exc)[:200], 'got': lines[:3], 'expected': exp[:3]})
                                # what the command line lists is decided by the options TYPED: variables of the environment that spell option
                                # names (as an automatic environment prefix of the option parser would read them) change nothing
                                if not show_tid and len(sc) <= 1:
                                    env = {f'{pre}{k}': v for pre in ('PYKDEBUGPARSER_', 'PYKDEBUGPARSER_TRACES_', 'PYKDEBUGPARSER_CLI_TRACES_') for k, v in
                                           (('TID', '2'), ('PROCESS', 'zz'), ('COUNT', '1'), ('CLASS_FILTERS', '1'), ('SUBCLASS_FILTERS', '0x140'), ('COLOR', '1'), ('SHOW_TID', '1'))}
                                    code, lines, exc = run_cli(blob, args, env=env)
                                    acc.case(nontrivial=True, transitions=2, state=h64(('cli-env', tid, proc, cl, sc)))
                                    if code != 0 or exc is not None or lines != exp:
                                        acc.violation('cli-traces-depend-on-environment-variables', {'kind': 'cli', 'args': args},
                                                      {'exit': code, 'error': repr(exc)[:200], 'got': lines[:3], 'expected': exp[:3]})
                                # the count limit counts the lines that are printed (the filtered ones), whatever else is read to decode them
                                if not show_tid and (tid is not None or proc is not None or cl or sc) and len(sc) <= 1:
                                    for n in (1, 2):
                                        code, lines, exc = run_cli(blob, args + ['--count', str(n)])
                                        acc.case(nontrivial=True, transitions=2, state=h64(('cli-count', tid, proc, cl, sc, n)))
                                        if code != 0 or exc is not None or lines != exp[:n]:
                                            acc.violation('cli-count-limit-with-filters-differs-from-first-lines', {'kind': 'cli', 'args': args + ['--count', str(n)]},
                                                          {'exit': code, 'error': repr(exc)[:200], 'got': lines[:3], 'expected': exp[:n]})

    def run_cross(self, seqs_, acc):
        """streams in which one thread's traces depend on records ANOTHER thread emitted (a string announced by a sibling, a
        thread declared by its parent, a process renamed by another thread) x thread / process / class filters: the filtered
        listing is still the unfiltered one restricted to the filter."""
        # subclass lists: none; a file-system and a kernel-trace subclass no decoder belongs to (they select nothing, and must not stop
        # the tool from reading the helper classes)
        cfgs = [(t, p, c, sc) for t in (None, 1, 2, 7) for p in (None, 'A', 'my kid', 'kid', 'my', '70', 'Z1') for c in ((), (4,), (0x1f,), (4, 0x1f))
                for sc in ((), (0x0302,), (0x0702,))]
        for opseq in seqs_:
            for cfg in cfgs:
                bad = judge_commute(opseq, cfg, False) or (judge_commute_lines(opseq, cfg) if cfg[3] == () else None)
                acc.case(nontrivial=cfg[0] is not None or cfg[1] is not None, transitions=2, state=h64((cfg, 'X')))
                if bad:
                    acc.violation(bad[0] + ':cross-thread', {'kind': 'A', 'ops': [list(o) for o in opseq], 'cfg': [cfg[0], cfg[1], list(cfg[2]), list(cfg[3])], 'as_tuple': False},
                                  {k: (v if not isinstance(v, list) else v[:3] + ['...']) for k, v in bad[1].items()})
                if cfg[1] is not None and not bad:
                    DISPLAY_OFF[0] = True
                    try:
                        bad = judge_commute(opseq, cfg, False)
                    finally:
                        DISPLAY_OFF[0] = False
                    acc.case(nontrivial=True, transitions=2, state=h64((cfg, 'X-display-off')))
                    if bad:
                        acc.violation(bad[0] + ':cross-thread:display-columns-off', {'kind': 'A', 'ops': [list(o) for o in opseq], 'cfg': [cfg[0], cfg[1], list(cfg[2]), list(cfg[3])], 'as_tuple': False,
                                                                                     'display_off': True}, {k: (v if not isinstance(v, list) else v[:3] + ['...']) for k, v in bad[1].items()})

    def run_aplus(self, acc):
        """the commutation check on a stream with a very long call, and with class lists that repeat an entry."""
        dup_lists = [(4, 4), (3, 3), (4, 1, 4), (7, 7), (1, 1)]
        streams = [(('open-with-150-nested-traps', 1), ('getpid', 2), ('open+lookup', 1)), (('getpid', 1), ('open-with-150-nested-traps', 2))]
        for opseq in ((('open+lookup-split-by-foreign-records', 1), ('getpid', 2)), (('getpid', 1), ('open+lookup-split-by-foreign-records', 2), ('open+lookup', 2)),
                      (('open-overlapping-a-fault', 1), ('getpid', 2)), (('getpid', 1), ('open-overlapping-a-fault', 2), ('open-overlapping-a-fault', 1))):
            for cfg in [(t, p, c, s) for t in TIDS for p in PROCS for c in class_lists() for s in SUBCLASS_LISTS]:
                bad = judge_commute(opseq, cfg, False)
                acc.case(nontrivial=True, transitions=2, state=h64((cfg, 'A+')))
                if bad:
                    acc.violation(bad[0], {'kind': 'A', 'ops': [list(o) for o in opseq], 'cfg': [cfg[0], cfg[1], list(cfg[2]), list(cfg[3])], 'as_tuple': False},
                                  {k: (v if not isinstance(v, list) else v[:3] + ['...']) for k, v in bad[1].items()})
        # the same commutation on version-3 dumps (two event chunks) that also carry log records
        V3[0] = True
        try:
            for opseq in ((('open+lookup', 1), ('getpid', 2), ('trace-exec', 1)), (('exec-rename', 1), ('mmap', 1), ('lone-lookup', 2), ('getpid', 1))):
                for cfg in [(t, p, c, s) for t in TIDS for p in PROCS for c in class_lists() for s in SUBCLASS_LISTS]:
                    bad = judge_commute(opseq, cfg, False)
                    acc.case(nontrivial=True, transitions=2, state=h64((cfg, 'A+v3')))
                    if bad:
                        acc.violation(bad[0] + ':version-3-dump-with-log-records', {'kind': 'A-v3', 'ops': [list(o) for o in opseq], 'cfg': [cfg[0], cfg[1], list(cfg[2]), list(cfg[3])]},
                                      {k: (v if not isinstance(v, list) else v[:3] + ['...']) for k, v in bad[1].items()})
        finally:
            V3[0] = False
        for opseq in streams:
            for cfg in [(t, p, c, s) for t in (None, 1) for p in (None, 'A') for c in class_lists() + dup_lists for s in SUBCLASS_LISTS]:
                bad = judge_commute(opseq, cfg, False)
                acc.case(nontrivial=True, transitions=2, state=h64((cfg, 'A+')))
                if bad:
                    acc.violation(bad[0], {'kind': 'A', 'ops': [list(o) for o in opseq], 'cfg': [cfg[0], cfg[1], list(cfg[2]), list(cfg[3])], 'as_tuple': False},
                                  {k: (v if not isinstance(v, list) else v[:3] + ['...']) for k, v in bad[1].items()})
        for opseq in ((('open+lookup', 1), ('getpid', 2), ('mmap', 1)),):
            for c in dup_lists:
                for s in SUBCLASS_LISTS:
                    bad = judge_commute(opseq, (None, None, c, s), False)
                    acc.case(nontrivial=True, transitions=2, state=h64((c, s, 'dup')))
                    if bad:
                        acc.violation(bad[0], {'kind': 'A', 'ops': [list(o) for o in opseq], 'cfg': [None, None, list(c), list(s)], 'as_tuple': False}, bad[1])

    def run_shard(self, desc, acc):
        if desc[0] == 'X':
            return self.run_cross(desc[1], acc)
        if desc[0] == 'A+':
            for sig, detail in judge_callstacks_commute():
                acc.violation(sig, {'kind': 'callstacks-commute'}, detail)
            acc.case(nontrivial=True, transitions=12, state=h64('callstacks-commute'))
            return self.run_aplus(acc)
        if desc[0] == 'cli':
            return self.run_cli(acc, desc[1], desc[2])
        if desc[0] == 'A':
            cfgs = [(t, p, c, s) for t in TIDS for p in PROCS for c in class_lists() for s in SUBCLASS_LISTS]
            for opseq in desc[1]:
                for cfg in cfgs:
                    for as_tuple in ((False, True) if cfg[0] is None and cfg[1] is None else (False,)):
                        bad = judge_commute(opseq, cfg, as_tuple)
                        acc.case(nontrivial=cfg != (None, None, (), ()), transitions=2, state=h64((cfg, as_tuple)),
                                 outcome=h64((opseq, cfg)) if len(opseq) == 1 else None)
                        if bad:
                            acc.violation(bad[0], {'kind': 'A', 'ops': [list(o) for o in opseq], 'cfg': [cfg[0], cfg[1], list(cfg[2]), list(cfg[3])],
                                                   'as_tuple': as_tuple}, bad[1])
                        elif acc.want_sample() and cfg[2] and cfg[0] and len(opseq) == 2:
                            acc.sample({'ops': [list(o) for o in opseq], 'filter': [cfg[0], cfg[1], list(cfg[2]), list(cfg[3])]})
        else:
            _, si, as_tuple = desc
            hists = list(seqs(REQUESTS, 3, 1))
            for cl in class_lists():
                for sc in SUBCLASS_LISTS:
                    for tid, proc in ((None, None), (1, None), (None, 'A')):
                        cfg = (tid, proc, cl, sc)
                        for hist in hists:
                            bad = judge_history(si, cfg, as_tuple, hist)
                            acc.case(nontrivial=len(hist) >= 2, transitions=2 * len(hist), state=h64((cfg, as_tuple)),
                                     outcome=h64((si, hist, bad is None)))
                            if bad:
                                acc.violation(bad[0], {'kind': 'B', 'stream': si, 'cfg': [tid, proc, list(cl), list(sc)], 'as_tuple': as_tuple,
                                                       'requests': list(hist)}, bad[1])
                            if len(hist) >= 2 and not as_tuple and any(o[0] in ('newthread-pair', 'exec-rename', 'trace-exec') for o in HIST_STREAMS[si]):
                                NOMAP[0] = True
                                try:
                                    bad = judge_history(si, cfg, as_tuple, hist)
                                finally:
                                    NOMAP[0] = False
                                acc.case(nontrivial=True, transitions=2 * len(hist), state=h64((cfg, 'nomap')), outcome=h64((si, hist, 'nomap', bad is None)))
                                if bad:
                                    acc.violation(bad[0] + ':dump-without-thread-map', {'kind': 'B', 'stream': si, 'cfg': [tid, proc, list(cl), list(sc)], 'as_tuple': as_tuple,
                                                                                        'requests': list(hist), 'nomap': True}, bad[1])
                            if len(hist) >= 2 and not as_tuple:
                                for reverse in (False, True):
                                    bad = judge_lazy(si, cfg, hist, reverse)
                                    acc.case(nontrivial=True, transitions=2 * len(hist), state=h64((cfg, 'lazy')), outcome=h64((si, hist, reverse, bad is None)))
                                    if bad:
                                        acc.violation(bad[0], {'kind': 'B-lazy', 'stream': si, 'cfg': [tid, proc, list(cl), list(sc)], 'requests': list(hist), 'reverse': reverse}, bad[1])
            acc.sample({'stream': [list(o) for o in HIST_STREAMS[si]], 'requests': ['callstacks', 'traces', 'callstacks']})

    def replay(self, case):
        if case['kind'] == 'A-v3':
            V3[0] = True
            try:
                c = case['cfg']
                bad = judge_commute(tuple(tuple(o) for o in case['ops']), (c[0], c[1], tuple(c[2]), tuple(c[3])), False)
            finally:
                V3[0] = False
            return [(bad[0] + ':version-3-dump-with-log-records', bad[1])] if bad else []
        if case['kind'] == 'callstacks-commute':
            return judge_callstacks_commute()
        if case['kind'] == 'B-lazy':
            c = case['cfg']
            bad = judge_lazy(case['stream'], (c[0], c[1], tuple(c[2]), tuple(c[3])), tuple(case['requests']), case['reverse'])
            return [bad] if bad else []
        if case['kind'] == 'cli':
            from mc.run import Acc
            acc = Acc()
            self.run_cli(acc)
            return [(sig, v['cases'][0][1]) for sig, v in acc.violations.items()]
        c = case['cfg']
        cfg = (c[0], c[1], tuple(c[2]), tuple(c[3]))
        if case['kind'] == 'A' and case.get('display_off'):
            DISPLAY_OFF[0] = True
            try:
                bad = judge_commute(tuple(tuple(o) for o in case['ops']), cfg, case['as_tuple'])
            finally:
                DISPLAY_OFF[0] = False
            return [(bad[0] + ':cross-thread:display-columns-off', bad[1])] if bad else []
        if case['kind'] == 'A':
            bad = judge_commute(tuple(tuple(o) for o in case['ops']), cfg, case['as_tuple'])
        else:
            NOMAP[0] = bool(case.get('nomap'))
            try:
                bad = judge_history(case['stream'], cfg, case['as_tuple'], tuple(case['requests']))
            finally:
                NOMAP[0] = False
            if bad and case.get('nomap'):
                bad = (bad[0] + ':dump-without-thread-map', bad[1])
        return [bad] if bad else []


if __name__ == '__main__':
    main(C13)
