"""C01 — every 64-byte kd_buf record decodes exactly and totally.

Enumerated: Hamming ball (radius 2) around four base records, every value of every byte, every 16-bit value of each
half of the debug id, and all decode *histories* (orders of <=3 decodes over a pool of records sharing sub-fields)."""
import itertools

from mc.run import Check, main, h64
from mc.ref import ref_decode
from mc.build import rec
from pykdebugparser.kevent import from_kd_buf

CAPTURED = (b'\x8b\xf3\x8f1\x13\xeb\x03\x00ework_BusinessChat-7.0.1-py2.py3\xdeJ\x88\x00\x00\x00\x00\x00'
            b'\x90\x00\x01\x03\x01\x00\x00\x00\x00\x00\x00\x00\x00\x00\x00\x00')
BASES = {
    'zero': bytes(64),
    'ones': b'\xff' * 64,
    'captured': CAPTURED,
    'distinct': bytes(range(64)),
}
FIELD_OF_BYTE = (['timestamp'] * 8 + ['data'] * 32 + ['tid'] * 8 + ['debugid'] * 4 + ['none'] * 12)


def observe(b):
    e = from_kd_buf(b)
    return (e.timestamp, e.data, tuple(e.values), e.tid, e.debugid, e.eventid, e.func_qualifier), e


def judge(b):
    """returns None or (sig, detail)"""
    try:
        got, e = observe(b)
    except Exception as ex:
        return ('decode-raised:' + type(ex).__name__, repr(ex))
    exp = ref_decode(b)
    names = ['timestamp', 'data', 'values', 'tid', 'debugid', 'eventid', 'func_qualifier']
    for n, g, x in zip(names, got, exp):
        if g != x or type(g) is not type(x):
            return ('field-mismatch:' + n, {'got': repr(g), 'expected': repr(x)})
    if len(e) != 7:
        return ('event-shape', len(e))
    if not (0 <= e.func_qualifier <= 3) or e.eventid & 3 or (e.eventid | e.func_qualifier) != e.debugid:
        return ('algebra', repr(got))
    rebuilt = rec(e.timestamp, tid=e.tid, debugid=e.eventid | e.func_qualifier, data=e.data)[:52]
    if rebuilt != b[:52]:
        return ('not-rebuildable', rebuilt.hex())
    return None


def flip(b, bits):
    ba = bytearray(b)
    for bit in bits:
        ba[bit >> 3] ^= 1 << (bit & 7)
    return bytes(ba)


POOL = None


def pool():
    global POOL
    if POOL is None:
        a = CAPTURED
        POOL = [
            a,
            bytes([a[0] ^ 1]) + a[1:],                # same everything, other timestamp
            a[:52] + b'\x11' * 12,                    # same first 52 bytes, different tail
            a[:8] + bytes(32) + a[40:],               # same header, zero args
            a[:48] + bytes([a[48] ^ 2]) + a[49:],     # other qualifier
            a[:40] + bytes([a[40] ^ 0x80]) + a[41:],  # other tid
            bytes(64),
            b'\xff' * 64,
        ]
    return POOL


def obs_of(e):
    return (e.timestamp, e.data, tuple(e.values), e.tid, e.debugid, e.eventid, e.func_qualifier)


class C01(Check):
    pid = 'C01'
    level = 'exploration'
    rule = ('from_kd_buf on (a) every record within Hamming distance <=2 (quick: bases zero/captured; thorough: 4 bases, and distance 3 around the captured record: 22.2M) of the '
            'base records, (b) every value 0..255 of each of the 64 bytes on each base, (c) all 2^16 values of '
            'the low and of the high half of the debug id on two bases, (d) all ordered sequences of <=3 decodes over a '
            'pool of 8 records that share sub-fields (result must equal the solo decode), (e) all ordered triples over a 9-record pool '
            'reached through the container parsers (a v2 dump; v3 dumps for every composition of the 3 records into 1..3 chunks; two '
            'v2 parses alive at once under every interleaving; records beginning with the v2 magic / a v3 tag; inter-chunk fillers of 4060..4099 bytes; chunks of 255..258 and 300 records next to another chunk; dumps that begin 1..4100 bytes into the stream; fillers ending with the first 1..6 bytes of the tag that follows; thread maps listing one thread id several times; 1..7 bytes in front of an events tag; every combination of 4 values of the 64-bit word and of the tick frequency of a v2 header, non-zero time-of-day / reserved bytes, non-zero uninterpreted bytes in a v3 chunk header), (f) every event id of the bundled code table (thorough: under each of the 4 qualifiers) as the first and third record of a 4-record dump whose later records carry OLDER timestamps, through a v2 dump, a two-chunk v3 dump and the facade listing. Oracle: independent byte-slicing '
            'decoder, the algebraic clauses, rebuild of the first 52 bytes, single-bit non-interference. Distinct by '
            'construction per sub-space; non-trivial = the record differs from its base (or, for histories, has length >=2).')
    assumptions = ('2^512 records are not enumerable: a special case keyed on a specific value outside the enumerated shapes '
                   '(distance-2 balls of 4 bases, single-byte sweeps, debug-id half sweeps) is not covered',)

    def bases(self):
        return ['zero', 'captured'] if self.tier == 'quick' else list(BASES)

    def bounds(self):
        return {'bases': self.bases(), 'hamming_radius': 2, 'hamming_radius_3_on_captured': self.tier == 'thorough', 'history_len': 3, 'pool': 8}

    def shards(self):
        out = []
        for bn in self.bases():
            for lo in range(0, 512, 16):
                out.append(('ball', bn, lo, lo + 16))
            out.append(('bytes', bn))
        for bn in ('captured', 'ones'):
            out.append(('dbg16', bn, 0))
            out.append(('dbg16', bn, 1))
        out.append(('hist',))
        out.append(('containers',))
        # every id of the bundled table (and, thorough, each qualifier) inside a dump whose later records are OLDER
        for lo in range(0, 3200, 400):
            out.append(('codes', lo, lo + 400))
        if self.tier == 'thorough':
            # radius 3 around the captured record: C(512,3) = 22.2M records, sharded by the first flipped bit
            for lo in range(0, 510):
                out.append(('ball3', 'captured', lo))
        return out

    def run_shard(self, desc, acc):
        kind = desc[0]
        if kind == 'ball':
            _, bn, lo, hi = desc
            base = BASES[bn]
            base_obs, _ = observe(base)
            if lo == 0:
                self._one(acc, base, ('ball', bn, []), nontrivial=False)
            for i in range(lo, hi):
                b1 = flip(base, [i])
                self._one(acc, b1, ('ball', bn, [i]), nontrivial=True)
                # non-interference for single-bit flips
                try:
                    o1, _ = observe(b1)
                    changed = {n for n, x, y in zip(['timestamp', 'data', 'values', 'tid', 'debugid', 'eventid',
                                                     'func_qualifier'], base_obs, o1) if x != y}
                    owner = FIELD_OF_BYTE[i >> 3]
                    if owner == 'none':
                        allowed = set()
                        must = set()
                    elif owner == 'data':
                        allowed = must = {'data', 'values'}
                    elif owner == 'debugid':
                        bit = i - 48 * 8
                        must = {'debugid', 'func_qualifier'} if bit < 2 else {'debugid', 'eventid'}
                        allowed = must
                    else:
                        allowed = must = {owner}
                    if changed != must:
                        acc.violation('interference:' + owner, {'kind': 'ball', 'base': bn, 'bits': [i]},
                                      {'changed': sorted(changed), 'expected': sorted(must)})
                except Exception:
                    pass
                for j in range(i + 1, 512):
                    self._one(acc, flip(b1, [j]), ('ball', bn, [i, j]), nontrivial=True)
        elif kind == 'ball3':
            _, bn, i = desc
            base = BASES[bn]
            b1 = flip(base, [i])
            for j in range(i + 1, 511):
                b2 = flip(b1, [j])
                for k in range(j + 1, 512):
                    self._one(acc, flip(b2, [k]), ('ball', bn, [i, j, k]), nontrivial=True)
        elif kind == 'bytes':
            _, bn = desc
            base = BASES[bn]
            for pos in range(64):
                for v in range(256):
                    b = base[:pos] + bytes([v]) + base[pos + 1:]
                    self._one(acc, b, ('byte', bn, pos, v), nontrivial=v != base[pos])
        elif kind == 'dbg16':
            _, bn, half = desc
            base = BASES[bn]
            for v in range(65536):
                off = 48 + 2 * half
                b = base[:off] + v.to_bytes(2, 'little') + base[off + 2:]
                self._one(acc, b, ('dbg16', bn, half, v), nontrivial=True)
        elif kind == 'codes':
            import io
            from mc import build as B
            from mc import ev as E
            from pykdebugparser.kd_buf_parser import KdBufParser
            from pykdebugparser.pykdebugparser import PyKdebugParser
            ids = sorted(E.codes())[desc[1]:desc[2]]
            other = E.n2i('BSC_getpid')
            for cid in ids:
                for q in ((0, 1, 2, 3) if self.tier == 'thorough' else (0,)):
                    recs = [B.rec(100, (1, 2, 3, 4), 5, cid | q), B.rec(50, (9, 8, 7, 6), 5, other | 1),
                            B.rec(100, (1, 2, 3, 4), 5, cid | q), B.rec(0, (9, 8, 7, 6), 6, other | 2)]
                    exp = [ref_decode(r) for r in recs]
                    for label in ('v2', 'v3', 'facade', 'facade-with-warnings-as-errors'):
                        import warnings
                        try:
                            if label == 'facade-with-warnings-as-errors':
                                # the interpreter runs with warnings turned into errors (python -W error): decoding is still total
                                with warnings.catch_warnings():
                                    warnings.simplefilter('error')
                                    got = [obs_of(e) for e in PyKdebugParser().kevents(io.BytesIO(B.v2([(5, 2, 'a')], 0, recs)))]
                            elif label == 'v2':
                                got = [obs_of(e) for e in KdBufParser({}, {}).parse(io.BytesIO(B.v2([(5, 2, 'a')], 0, recs)))]
                            elif label == 'v3':
                                got = [obs_of(e) for e in KdBufParser({}, {}).parse(io.BytesIO(B.v3([(5, 2, 'a')], [recs[:2], recs[2:]])))]
                            else:
                                got = [obs_of(e) for e in PyKdebugParser().kevents(io.BytesIO(B.v2([(5, 2, 'a')], 0, recs)))]
                        except Exception as ex:
                            got = repr(ex)
                        acc.case(nontrivial=True, transitions=4, outcome=h64(cid >> 16))
                        if got != exp:
                            acc.violation('record-decoded-differently-through-container:' + label + ':by-event-id',
                                          {'kind': 'codes', 'id': cid | q, 'label': label}, {'got': repr(got)[:300], 'expected': repr(exp)[:300]})
            acc.sample({'event_id_swept': hex(ids[0]) if ids else None})
        elif kind == 'containers':
            # the same records reached through the container parsers (v2; v3 split over 1..3 chunks; two parses alive at once)
            import io
            from mc import build as B
            from mc.space import compositions, interleavings
            from pykdebugparser.kd_buf_parser import KdBufParser
            P = [r for r in pool() if r[0] != 0] + [bytes(range(1, 65)), bytes(range(64, 0, -1)),
                                                     bytes([0x00, 0x02, 0xaa, 0x55]) + bytes(range(4, 64)),    # begins with the v2 magic
                                                     bytes([0x00, 0x1e, 0, 0, 0, 0, 0, 0]) + bytes(range(8, 64))]  # begins with the v3 events tag
            names = ['timestamp', 'data', 'values', 'tid', 'debugid', 'eventid', 'func_qualifier']

            def events(blob):
                return [(e.timestamp, e.data, tuple(e.values), e.tid, e.debugid, e.eventid, e.func_qualifier)
                        for e in KdBufParser({}, {}).parse(io.BytesIO(blob))]
            for seq in itertools.product(range(len(P)), repeat=3):
                recs = [P[i] for i in seq]
                exp = [ref_decode(r) for r in recs]
                blobs = [('v2', B.v2([(1, 2, 'a')], 0, recs))] if recs[0][0] != 0 else []   # a first record starting with 0 is K1 (C02)
                if seq[0] == seq[1] == 0:
                    # chunks separated by fillers that put the next events tag at / across a 4096-byte block boundary
                    for L in range(4060, 4100):
                        blobs.append((f'v3gap{L}', B.v3([(1, 2, 'a')], [recs[:1], recs[1:]], gap=bytes((i * 7) % 250 + 1 for i in range(L)))))
                for k in (1, 2, 3):
                    for comp in compositions(3, k):
                        chunks, i = [], 0
                        for c in comp:
                            chunks.append(recs[i:i + c])
                            i += c
                        blobs.append((f'v3{comp}', B.v3([(1, 2, 'a')], chunks)))
                for label, blob in blobs:
                    try:
                        got = events(blob)
                    except Exception as ex:
                        got = repr(ex)
                    acc.case(nontrivial=True, transitions=3, outcome=None)
                    if got != exp:
                        acc.violation('record-decoded-differently-through-container:' + label[:2], {'kind': 'container', 'seq': list(seq), 'label': label},
                                      {'got': repr(got)[:300], 'expected': repr(exp)[:300]})
            # chunks of 255..258 / 300 records followed by another chunk; dumps that begin 1..4100 bytes into the stream
            for n in (255, 256, 257, 258, 300):
                recs = [B.rec(1000 + i, (i, i * 3, 7, 9), 1 + i % 3, 0x040c0004 | (i % 4)) for i in range(n)] + [P[0], P[1]]
                exp = [ref_decode(r) for r in recs]
                for label, blob in (('v3-big-chunk-then-chunk', B.v3([(1, 2, 'a')], [recs[:n], recs[n:]])), ('v3-chunk-then-big-chunk', B.v3([(1, 2, 'a')], [recs[:2], recs[2:]])),
                                    ('v2', B.v2([(1, 2, 'a')], 0, recs))):
                    try:
                        got = events(blob)
                    except Exception as ex:
                        got = repr(ex)
                    acc.case(nontrivial=True, transitions=n + 2)
                    if got != exp:
                        acc.violation('record-decoded-differently-through-container:' + label, {'kind': 'container-big', 'n': n, 'label': label}, {'got': repr(got)[:200]})
            for off in (1, 7, 8, 63, 64, 0x100, 0x120, 0x123, 4000, 4091, 4096, 4100):
                recs = [P[0], P[1], P[2]]
                exp = [ref_decode(r) for r in recs]
                for label, blob in (('v2@offset', B.v2([(1, 2, 'a')], 0, recs)), ('v2-page-padded@offset', B.v2([(1, 2, 'a')], 4096 - 0x120 - 32, recs)),
                                    ('v3@offset', B.v3([(1, 2, 'a')], [recs[:1], recs[1:]]))):
                    st = io.BytesIO(bytes((i * 11 + 3) % 255 + 1 for i in range(off)) + blob)
                    st.seek(off)
                    try:
                        got = [(e.timestamp, e.data, tuple(e.values), e.tid, e.debugid, e.eventid, e.func_qualifier) for e in KdBufParser({}, {}).parse(st)]
                    except Exception as ex:
                        got = repr(ex)
                    acc.case(nontrivial=True, transitions=3)
                    if got != exp:
                        acc.violation('record-decoded-differently-through-container:' + label, {'kind': 'container-offset', 'offset': off, 'label': label}, {'got': repr(got)[:200]})
            # thread maps that list one thread id twice / three times (with and without padding); 1..7 filler bytes in front of an events tag
            recs = [P[0], P[1], P[2]]
            exp = [ref_decode(r) for r in recs]
            variants = [(f'v2-duplicate-tids-pad{pad}', B.v2(tm, pad, recs)) for pad in (0, 8, 40) for tm in ([(1, 2, 'a'), (1, 3, 'b')], [(1, 2, 'a'), (1, 3, 'b'), (1, 4, 'c'), (2, 2, 'd')])]
            variants += [(f'v3-duplicate-tids', B.v3([(1, 2, 'a'), (1, 3, 'b'), (1, 4, 'c')], [recs[:1], recs[1:]]))]
            variants += [(f'v3-gap-of-{L}-bytes', B.v3([(1, 2, 'a')], [recs[:1], recs[1:2], recs[2:]], gap=b'q' * L, more_word=b'')) for L in range(1, 8)]
            for label, blob in variants:
                try:
                    got = events(blob)
                except Exception as ex:
                    got = repr(ex)
                acc.case(nontrivial=True, transitions=3)
                if got != exp:
                    acc.violation('record-decoded-differently-through-container:' + label.split('-pad')[0].split('-of-')[0], {'kind': 'container-maps', 'label': label}, {'got': repr(got)[:200]})
            # header fields the decoding of records does not depend on: the 64-bit word, the tick frequency, the time-of-day and reserved
            # bytes of a v2 header; the 8 uninterpreted bytes that follow the length of a v3 events chunk
            recs = [P[0], P[1], P[2]]
            exp = [ref_decode(r) for r in recs]
            variants = [(f'v2-header-is64={i}-tick={t}', B.v2([(1, 2, 'a')], 0, recs, is_64bit=i, tick=t, tod=tod, reserved=res))
                        for i in (0, 1, 2, 0xffffffff) for t in (0, 1, 24000000, 2 ** 64 - 1) for tod, res in ((bytes(12), bytes(0x100)), (b'\x5a' * 12, b'\xa5' * 0x100))]
            variants += [(f'v3-uninterpreted-bytes-{u.hex()}', B.v3([(1, 2, 'a')], [recs[:1], recs[1:]], unknown8=u)) for u in (b'\x01' + bytes(7), b'\xff' * 8, bytes(7) + b'\x01')]
            for label, blob in variants:
                try:
                    got = events(blob)
                except Exception as ex:
                    got = repr(ex)
                acc.case(nontrivial=True, transitions=3)
                if got != exp:
                    acc.violation('record-decoded-differently-through-container:' + label.split('=')[0].split('-bytes')[0], {'kind': 'container-header', 'label': label}, {'got': repr(got)[:200]})
            # fillers that END with the first 1..6 bytes of the tag that follows them (a scanner that does not fall back after a
            # partial match misses the tag)
            recs = [P[0], P[1], P[2]]
            exp = [ref_decode(r) for r in recs]
            for j in range(1, 7):
                for label, kw in (('v3-filler-ends-with-sentinel-prefix', dict(filler1=b'qq' + B.STACKSHOT_END[:j])),
                                  ('v3-filler-ends-with-threadmap-tag-prefix', dict(filler2=b'qq' + B.TAG_THREADMAP[:j])),
                                  ('v3-gap-ends-with-events-tag-prefix', dict(gap=b'qq' + B.TAG_EVENTS[:j]))):
                    try:
                        got = events(B.v3([(1, 2, 'a')], [recs[:1], recs[1:]], **kw))
                    except Exception as ex:
                        got = repr(ex)
                    acc.case(nontrivial=True, transitions=3)
                    if got != exp:
                        acc.violation('record-decoded-differently-through-container:' + label, {'kind': 'container-tagprefix', 'j': j, 'label': label}, {'got': repr(got)[:200]})
            # the stackshot is arbitrary binary data: it holds the thread-map tag / an events tag (followed by a small, a medium, a huge
            # word) IN FRONT of its end marker, or the events tag between the marker and the thread map
            for word in (0, 8, 72, 200, 2 ** 40):
                for label, kw in (('v3-stackshot-holds-threadmap-tag', dict(filler1=b'ab' + B.TAG_THREADMAP + word.to_bytes(8, 'little') + b'cd' * 20)),
                                  ('v3-stackshot-holds-events-tag', dict(filler1=b'ab' + B.TAG_EVENTS + word.to_bytes(8, 'little') + b'cd' * 20)),
                                  ('v3-stackshot-holds-more-events-tag', dict(filler1=b'ab' + B.TAG_MORE_EVENTS + word.to_bytes(8, 'little') + b'cd' * 20))):
                    try:
                        got = events(B.v3([(1, 2, 'a')], [recs[:1], recs[1:]], **kw))
                    except Exception as ex:
                        got = repr(ex)
                    acc.case(nontrivial=True, transitions=3)
                    if got != exp:
                        acc.violation('record-decoded-differently-through-container:' + label, {'kind': 'container-stackshot-tags', 'word': word, 'label': label}, {'got': repr(got)[:200]})
            # a version-3 dump that carries log records behind its events, listed through the facade with a thread / class / subclass
            # filter that every record satisfies: exactly the records, decoded exactly
            from pykdebugparser.pykdebugparser import PyKdebugParser
            logs = [B.v3_block(B.TAG_LOG_STRINGS, B.bplist({'StringIndex': {'hello': 1, 'proc': 2}})),
                    B.v3_block(B.TAG_LOG_EVENTS, B.bplist({'Events': [{'cm': 1, 't': 'logEvent', 's': 1, 'tid': 1, 'ns': 5, 'mct': 6, 'b': b'B' * 16, 'piu': b'P' * 16,
                                                                      'ud': {'sec': 1600000000, 'usec': 7}, 'utz': {'mw': 0, 'dt': 0}, 'p': 2, 'pid': 10}]}))]
            same = [B.rec(5 + i, (i, 2, 3, 4), 77, 0x040c0004 | (i & 3)) for i in range(3)]
            exp_same = [ref_decode(r) for r in same]
            for label, setting in (('no-filter', {}), ('filter_tid', {'filter_tid': 77}), ('filter_class', {'filter_class': [4]}), ('filter_subclass', {'filter_subclass': [0x040c]}),
                                   ('filter_tid+class', {'filter_tid': 77, 'filter_class': [4]})):
                f = PyKdebugParser()
                for k, v in setting.items():
                    setattr(f, k, v)
                try:
                    got = [(e.timestamp, e.data, tuple(e.values), e.tid, e.debugid, e.eventid, e.func_qualifier)
                           for e in f.kevents(io.BytesIO(B.v3([(77, 2, 'a')], [same[:1], same[1:]], logs)))]
                except Exception as ex:
                    got = repr(ex)
                acc.case(nontrivial=True, transitions=4)
                if got != exp_same:
                    acc.violation('record-decoded-differently-through-container:v3-with-log-records+' + label, {'kind': 'container-logs-filter', 'label': label}, {'got': repr(got)[:200]})
            # 300 records behind a header whose length is not a multiple of 64, read through buffered streams (io.BufferedReader with the
            # default, a 4096- and a 100-byte buffer; a file opened with open(path, 'rb')): records straddle the buffer boundaries
            import os
            import tempfile
            many = [B.rec(1000 + i, (i, 2, 3, 4), 9, 0x040c0004 | (i & 3)) for i in range(300)]
            exp_many = [ref_decode(r) for r in many]
            for tm in ([], [(1, 2, 'a')]):
                blob = B.v2(tm, 0, many)
                fd, path = tempfile.mkstemp(prefix='verif_c01_')
                os.write(fd, blob)
                os.close(fd)
                try:
                    for label, mk in (('BufferedReader', lambda: io.BufferedReader(io.BytesIO(blob))), ('BufferedReader-4096', lambda: io.BufferedReader(io.BytesIO(blob), buffer_size=4096)),
                                      ('BufferedReader-100', lambda: io.BufferedReader(io.BytesIO(blob), buffer_size=100)), ('file', lambda: open(path, 'rb')),
                                      ('file-unbuffered', lambda: open(path, 'rb', buffering=0))):
                        st = mk()
                        try:
                            got = [(e.timestamp, e.data, tuple(e.values), e.tid, e.debugid, e.eventid, e.func_qualifier) for e in KdBufParser({}, {}).parse(st)]
                        except Exception as ex:
                            got = repr(ex)
                        finally:
                            st.close()
                        acc.case(nontrivial=True, transitions=300)
                        if got != exp_many:
                            acc.violation('record-decoded-differently-through-container:buffered-stream', {'kind': 'container-buffered', 'stream': label, 'thread_map_entries': len(tm)},
                                          {'got_n': len(got) if isinstance(got, list) else got[:200], 'expected_n': 300})
                finally:
                    os.unlink(path)
            # version-3 dumps whose chunk length words count the records only (64 n, without the 8 bytes in front of them), in 1..3 chunks;
            # and every combination of header time-base words (numer / denom zero and non-zero, minutes-west 0, 60, 2^32-60 = east of
            # Greenwich as the unsigned word the header stores, 1440, 2^31) through the parser and the facade
            from pykdebugparser.pykdebugparser import PyKdebugParser as _F
            for chunks in ([recs], [recs[:1], recs[1:]], [recs[:2], recs[2:]], [recs[:1], recs[1:2], recs[2:]]):
                for with8 in (False, True):
                    try:
                        got = events(B.v3([(1, 2, 'a')], chunks, with8=with8))
                    except Exception as ex:
                        got = repr(ex)
                    acc.case(nontrivial=True, transitions=3)
                    if got != exp:
                        acc.violation('record-decoded-differently-through-container:v3-chunk-length-' + ('64n+8' if with8 else '64n'), {'kind': 'container-chunklen', 'chunks': [len(c) for c in chunks], 'with8': with8},
                                      {'got': repr(got)[:200]})
            for numer, denom in ((0, 0), (125, 3), (1, 1), (0, 3)):
                for mw in (0, 60, 2 ** 32 - 60, 1440, 2 ** 31, 2 ** 32 - 1):
                    for dst in (0, 1):
                        blob = B.v3([(1, 2, 'a')], [recs[:1], recs[1:]], header_kw=dict(numer=numer, denom=denom, mw=mw, dst=dst))
                        for via in ('parser', 'facade'):
                            try:
                                got = events(blob) if via == 'parser' else [(e.timestamp, e.data, tuple(e.values), e.tid, e.debugid, e.eventid, e.func_qualifier) for e in _F().kevents(io.BytesIO(blob))]
                            except Exception as ex:
                                got = repr(ex)
                            acc.case(nontrivial=True, transitions=3)
                            if got != exp:
                                acc.violation('record-decoded-differently-through-container:v3-header-time-words', {'kind': 'container-v3-header', 'numer': numer, 'denom': denom, 'minutes_west': mw, 'via': via},
                                              {'got': repr(got)[:200]})
            # a version-3 thread map with an entry whose name is not UTF-8 (a multi-byte name cut at the 20th byte) followed by entries whose
            # thread ids spell the events tag / the more-events tag
            for tm in ([(5, 6, b'\xe2\x82\xac' * 6 + b'\xe2\x82'), (0x1e00, 7, 'x'), (1, 2, 'a')], [(5, 6, b'\xff' * 20), (0x2000, 7, 'y'), (0x1e00, 8, 'z')],
                       [(0x1e00, 7, 'x'), (0x1d00, 7, 'w')]):
                try:
                    got = events(B.v3(tm, [recs[:1], recs[1:]]))
                except Exception as ex:
                    got = repr(ex)
                acc.case(nontrivial=True, transitions=3)
                if got != exp:
                    acc.violation('record-decoded-differently-through-container:v3-thread-map-with-tag-like-thread-ids', {'kind': 'container-v3-threadmap', 'map': repr(tm)[:120]}, {'got': repr(got)[:200]})
            # a dump cut in the middle of a record (parsing it raises), then a complete dump, in the same process
            for cut in (1, 20, 63, 64 + 31):
                whole = B.v2([], 0, [P[0], P[1], P[2]])
                try:
                    events(whole[:len(whole) - cut])
                except Exception:
                    pass
                got = events(B.v2([], 0, [P[3], P[4]]))
                acc.case(nontrivial=True, transitions=5)
                if got != [ref_decode(P[3]), ref_decode(P[4])]:
                    acc.violation('record-decoded-differently-through-container:after-a-failed-parse', {'kind': 'container-after-failure', 'cut': cut}, {'got': repr(got)[:300]})
            # two parses alive at once
            a = B.v2([], 0, [P[0], P[1], P[2]])
            b = B.v2([], 0, [P[3], P[4], P[5]])
            for sched in interleavings([3, 3]):
                gens = [KdBufParser({}, {}).parse(io.BytesIO(a)), KdBufParser({}, {}).parse(io.BytesIO(b))]
                got = [[], []]
                for who in sched:
                    e = next(gens[who])
                    got[who].append((e.timestamp, e.data, tuple(e.values), e.tid, e.debugid, e.eventid, e.func_qualifier))
                acc.case(nontrivial=True, transitions=6)
                if got != [[ref_decode(P[i]) for i in (0, 1, 2)], [ref_decode(P[i]) for i in (3, 4, 5)]]:
                    acc.violation('record-decoded-differently-through-container:concurrent', {'kind': 'container-concurrent', 'schedule': list(sched)}, {})
        else:
            P = pool()
            solo = []
            for b in P:
                solo.append(observe(b)[0])
            for n in (1, 2, 3):
                for seq in itertools.product(range(len(P)), repeat=n):
                    outs = []
                    try:
                        for k in seq:
                            outs.append(observe(P[k])[0])
                    except Exception as ex:
                        acc.violation('decode-raised:' + type(ex).__name__, {'kind': 'hist', 'seq': list(seq)}, repr(ex))
                        continue
                    acc.case(nontrivial=n >= 2, transitions=n, outcome=h64(outs[-1]))
                    for k, o in zip(seq, outs):
                        if o != solo[k] or o != ref_decode(P[k]):
                            acc.violation('decode-depends-on-history', {'kind': 'hist', 'seq': list(seq)},
                                          {'record': k, 'got': repr(o), 'solo': repr(solo[k])})
                            break
            # the record handed over as other bytes-like objects (bytearray, memoryview over a buffer that is REUSED afterwards): the
            # event keeps its own copy of what it decoded
            for k, b in enumerate(P):
                for kind in ('bytearray', 'memoryview', 'memoryview-of-reused-buffer', 'memoryview-of-8-words', 'memoryview-of-16-half-words', 'array-of-8-words', 'ctypes-array-of-8-words'):
                    buf = bytearray(b)
                    arg = buf if kind == 'bytearray' else memoryview(buf)
                    if kind == 'memoryview-of-8-words':
                        arg = memoryview(buf).cast('Q')          # the same 64 bytes, seen as items of another size
                    elif kind == 'memoryview-of-16-half-words':
                        arg = memoryview(buf).cast('I')
                    elif kind == 'array-of-8-words':
                        import array
                        arg = array.array('Q', bytes(buf))
                    elif kind == 'ctypes-array-of-8-words':
                        import ctypes
                        arg = (ctypes.c_uint64 * 8).from_buffer_copy(bytes(buf))
                    try:
                        e = from_kd_buf(arg)
                        if kind == 'memoryview-of-reused-buffer':
                            buf[:] = bytes(64)          # the caller reads the next record into the same buffer
                        o = (e.timestamp, bytes(e.data), tuple(e.values), e.tid, e.debugid, e.eventid, e.func_qualifier)
                        bad = None if o == ref_decode(b) and isinstance(e.data, bytes) else ('decode-of-bytes-like-record-differs', {'input': kind, 'got': repr(o)[:200]})
                    except Exception as ex:
                        bad = ('decode-raised:' + type(ex).__name__, {'input': kind, 'error': repr(ex)[:100]})
                    acc.case(nontrivial=True, transitions=1, outcome=h64(('bytes-like', kind)))
                    if bad:
                        acc.violation(bad[0], {'kind': 'hist', 'seq': [k], 'input': kind}, bad[1])
            acc.sample({'history_of_pool_indices': [0, 2, 1]})

    def _one(self, acc, b, case, nontrivial):
        bad = judge(b)
        acc.case(nontrivial=nontrivial, transitions=1, outcome=None)
        if bad:
            acc.violation(bad[0], {'kind': 'record', 'hex': b.hex(), 'how': list(case)}, bad[1])
        elif acc.want_sample() and nontrivial:
            acc.sample({'record_hex': b.hex(), 'how': list(case)})

    def replay(self, case):
        if case['kind'] == 'record':
            bad = judge(bytes.fromhex(case['hex']))
            return [bad] if bad else []
        if case['kind'] == 'ball':
            base = BASES[case['base']]
            b1 = flip(base, case['bits'])
            o0, _ = observe(base)
            o1, _ = observe(b1)
            names = ['timestamp', 'data', 'values', 'tid', 'debugid', 'eventid', 'func_qualifier']
            changed = sorted(n for n, x, y in zip(names, o0, o1) if x != y)
            i = case['bits'][0]
            owner = FIELD_OF_BYTE[i >> 3]
            must = {'none': [], 'data': ['data', 'values']}.get(owner)
            if owner == 'debugid':
                must = sorted(['debugid', 'func_qualifier'] if i - 384 < 2 else ['debugid', 'eventid'])
            elif must is None:
                must = [owner]
            return [('interference:' + owner, {'changed': changed, 'expected': must})] if changed != sorted(must) else []
        if case['kind'] == 'codes':
            from mc.run import Acc
            from mc import ev as E
            acc = Acc()
            k = sorted(E.codes()).index(case['id'] & ~3)
            self.run_shard(('codes', k, k + 1), acc)
            return [(sig, v['cases'][0][1]) for sig, v in acc.violations.items()]
        if case['kind'].startswith('container'):
            from mc.run import Acc
            acc = Acc()
            self.run_shard(('containers',), acc)
            return [(sig, v['cases'][0][1]) for sig, v in acc.violations.items()]
        P = pool()
        outs = [observe(P[k])[0] for k in case['seq']]
        for k, o in zip(case['seq'], outs):
            if o != ref_decode(P[k]):
                return [('decode-depends-on-history', {'record': k, 'got': repr(o)})]
        return []


if __name__ == '__main__':
    main(C01)
