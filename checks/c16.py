"""C16 — log records decode for every combination of optional fields.

Raw log records with the mandatory keys and enumerated subsets of the 31 optional keys (every subset with <=3 present, every
subset with <=3 absent, full products over the string-index keys and over the loss/signpost keys), timestamp corner values,
decomposed-message shapes, and every defined trace-identifier word, decoded directly and inside a version-3 dump."""
import copy
import io
import itertools
from datetime import datetime, timezone, timedelta

from mc.run import Check, main, h64
from mc import build as B
from mc.space import chunked, subsets
from pykdebugparser.os_log_event import OsLogEvent
from pykdebugparser.kd_buf_parser import KdBufParser

STRINGS = {0: 'msg', 1: 'proc', 2: '/bin/proc', 3: '/lib/s', 4: 'sender', 5: 'subsys', 6: 'cat', 7: 'fmt %d', 8: 'sp name', 9: 'lit', 10: 'tok'}
MAND = {'cm': 0, 't': 'logEvent', 's': 10, 'tid': 77, 'ns': 5, 'mct': 6, 'b': b'B' * 16, 'piu': b'P' * 16,
        'ud': {'sec': 1600000000, 'usec': 250000}, 'utz': {'mw': -120, 'dt': 1}}
OPT = {'ti': 0x0000000100000204, 'pip': 2, 'p': 1, 'sip': 3, 'send': 4, 'sio': 0x1234, 'siu': b'S' * 16, 'lt': 0x10, 'ttl': 3, 'pid': 42,
       'aid': 9, 'paid': 8, 'tai': 7, 'sub': 5, 'cat': 6, 'f': 7, 'cai': 11, 'cpui': 12, 'si': 13, 'sn': 8, 'st': 1, 'ss': 2, 'lsmct': 100,
       'lemct': 200, 'lsud': {'sec': 1, 'usec': 2}, 'leud': {'sec': 3, 'usec': 4}, 'lsutz': {'mw': 1, 'dt': 0}, 'leutz': {'mw': 2, 'dt': 1},
       'bt': [{'iu': b'I' * 16, 'io': 5}, {'iu': b'J' * 16, 'io': 6}], 'lc': {'c': 3, 's': 1}, 'dm': {'pc': 0, 's': 1}}
KEYS = list(OPT)
STRING_KEYS = ['pip', 'p', 'sip', 'send', 'sub', 'cat', 'f', 'sn']
LOSS_KEYS = ['si', 'st', 'ss', 'lsmct', 'lemct', 'lsud', 'leud', 'lsutz', 'leutz', 'lc']

# key -> (field, transform)
S = lambda v: STRINGS[v]
I = lambda v: v
FIELD = {
    'pip': ('process_image_path', S), 'p': ('process', S), 'sip': ('sender_image_path', S), 'send': ('sender', S),
    'sio': ('sender_image_offset', I), 'siu': ('sender_image_uuid', I), 'ttl': ('time_to_live', I), 'pid': ('process_identifier', I),
    'aid': ('activity_identifier', I), 'paid': ('parent_activity_identifier', I), 'tai': ('transition_activity_identifier', I),
    'sub': ('subsystem', S), 'cat': ('category', S), 'f': ('format_string', S), 'cai': ('creator_activity_identifier', I),
    'cpui': ('creator_process_unique_identifier', I), 'si': ('signpost_identifier', I), 'sn': ('signpost_name', S),
    'st': ('signpost_type', I), 'ss': ('signpost_scope', I), 'lsmct': ('loss_start_mach_continuous_timestamp', I),
    'lemct': ('loss_end_mach_continuous_timestamp', I), 'lsud': ('loss_start_unix_date', I), 'leud': ('loss_end_unix_date', I),
    'lsutz': ('loss_start_unix_timezone', lambda v: {'minutes_west': v['mw'], 'dst_time': v['dt']}),
    'leutz': ('loss_end_unix_timezone', lambda v: {'minutes_west': v['mw'], 'dst_time': v['dt']}),
    'bt': ('backtrace', lambda v: [{'image_uuid': x['iu'], 'image_offset': x['io']} for x in v]),
    'lc': ('loss_count', lambda v: {'count': v['c'], 'unknown': v['s']}),
}
DEFAULTS = {'process_image_path': '', 'process': '', 'sender_image_path': '', 'sender': '', 'sender_image_offset': 0, 'sender_image_uuid': b'',
            'log_type': None, 'time_to_live': 0, 'process_identifier': 0, 'subsystem': '', 'category': '', 'format_string': '',
            'activity_identifier': 0, 'parent_activity_identifier': 0, 'decomposed_message': {}, 'trace_identifier': None,
            'creator_activity_identifier': 0, 'creator_process_unique_identifier': 0, 'signpost_identifier': 0, 'signpost_name': '',
            'signpost_type': 0, 'signpost_scope': 0, 'loss_start_mach_continuous_timestamp': 0, 'loss_end_mach_continuous_timestamp': 0,
            'loss_start_unix_date': {}, 'loss_end_unix_date': {}, 'loss_start_unix_timezone': {}, 'loss_end_unix_timezone': {},
            'loss_count': {}, 'backtrace': []}
LOG_TYPES = {0: 'DEFAULT', 1: 'INFO', 2: 'DEBUG', 0x10: 'ERROR', 0x11: 'FAULT'}
EPOCH = datetime(1970, 1, 1, tzinfo=timezone.utc)


def reorder(x, how):
    """the same mapping with its keys inserted in another order (recursively)."""
    if isinstance(x, dict):
        keys = list(x)
        keys = keys[::-1] if how == 'reversed' else sorted(keys, key=lambda k: (len(k), k))
        return {k: reorder(x[k], how) for k in keys}
    if isinstance(x, list):
        return [reorder(i, how) for i in x]
    return x


def decode(event, strings, via):
    via, _, tz = via.partition(':TZ=')
    if tz:
        # decode with the process's zone set to tz (restored afterwards)
        import os
        import time
        saved = os.environ.get('TZ')
        os.environ['TZ'] = tz
        time.tzset()
        try:
            return decode(event, strings, via)
        finally:
            if saved is None:
                os.environ.pop('TZ', None)
            else:
                os.environ['TZ'] = saved
            time.tzset()
    if via == 'twice':
        # the SAME raw record object decoded twice (no copy in between): the caller's record is the caller's
        first = OsLogEvent.from_raw_log_event(event, strings)
        second = OsLogEvent.from_raw_log_event(event, strings)
        if vars(first) != vars(second):
            raise AssertionError('second decoding of the same record differs from the first')
        return second
    if via in ('reversed', 'sorted'):
        return OsLogEvent.from_raw_log_event(reorder(copy.deepcopy(event), via), strings)
    if via == 'direct':
        return OsLogEvent.from_raw_log_event(copy.deepcopy(event), strings)
    if via == 'v3-sparse':
        # the dump numbers its strings 1, 4, 7, ... (no slot 0, gaps between all of them): every reference is renumbered alike
        def slot(k):
            return 3 * k + 1

        def renum(ev):
            ev = copy.deepcopy(ev)
            for k in ('cm', 'pip', 'p', 'sip', 'send', 'sub', 'cat', 'f', 'sn'):
                if k in ev:
                    ev[k] = slot(ev[k])
            for seg in (ev.get('dm') or {}).get('seg', []):
                if 'lp' in seg:
                    seg['lp'] = slot(seg['lp'])
                for k in ('rs', 'tn', 'ty'):
                    if k in seg.get('p', {}):
                        seg['p'][k] = slot(seg['p'][k])
                if 't' in seg.get('p', {}):
                    seg['p']['t'] = [slot(x) for x in seg['p']['t']]
                if seg.get('a', {}).get('c') == 2 and 'or' in seg['a']:
                    seg['a']['or'] = slot(seg['a']['or'])
            return ev
        event = renum(event)
        strings = {slot(k): v for k, v in strings.items()}
    if via == 'v3-xml':
        import plistlib
        rev = {v: k for k, v in strings.items()}
        blob = B.v3([(1, 10, 'A')], [[]], [B.v3_block(B.TAG_LOG_STRINGS, plistlib.dumps({'StringIndex': rev})),
                                          B.v3_block(B.TAG_LOG_EVENTS, plistlib.dumps({'Events': [event]}))])
        out = [x for x in KdBufParser({}, {}).parse(io.BytesIO(blob)) if isinstance(x, OsLogEvent)]
        assert len(out) == 1
        return out[0]
    rev = {v: k for k, v in strings.items()}
    blob = B.v3([(1, 10, 'A')], [[]], [B.v3_block(B.TAG_LOG_STRINGS, B.bplist({'StringIndex': rev})),
                                      B.v3_block(B.TAG_LOG_EVENTS, B.bplist({'Events': [event]}))])
    out = [x for x in KdBufParser({}, {}).parse(io.BytesIO(blob)) if isinstance(x, OsLogEvent)]
    assert len(out) == 1
    return out[0]


def judge_record(present, via='direct', overrides=None):
    e = dict(copy.deepcopy(MAND))
    for k in present:
        e[k] = copy.deepcopy(OPT[k])
    if overrides:
        e.update(copy.deepcopy(overrides))
    try:
        o = decode(e, STRINGS, via)
    except Exception as ex:
        return ('log-decode-raised:' + type(ex).__name__, {'error': repr(ex)[:200], 'present': sorted(present)})
    got = vars(o)
    exp = {'composed_message': STRINGS[e['cm']], 'type_': e['t'], 'size': e['s'], 'thread_identifier': e['tid'],
           'continuous_nanoseconds_since_boot': e['ns'], 'mach_continuous_timestamp': e['mct'], 'boot_uuid': e['b'],
           'process_image_uuid': e['piu'], 'unix_timezone': {'minutes_west': e['utz']['mw'], 'dst_time': e['utz']['dt']}}
    for k in e:
        if k in FIELD:
            f, tr = FIELD[k]
            exp[f] = tr(e[k])
    for f, v in exp.items():
        if f not in got:
            return ('log-field-missing:' + f, {'present': sorted(present)})
        if got[f] != v:
            return ('log-field-wrong:' + f, {'got': repr(got[f])[:100], 'expected': repr(v)[:100], 'present': sorted(present)})
    want_date = EPOCH + timedelta(seconds=e['ud']['sec'], microseconds=e['ud']['usec'])
    if got['unix_date'] != want_date or got['unix_date'].utcoffset() != timedelta(0):
        return ('log-unix-date-not-the-utc-instant', {'got': repr(got['unix_date']), 'expected': repr(want_date)})
    if 'lt' in e:
        if got['log_type'] is None or got['log_type'].value != e['lt'] or got['log_type'].name != LOG_TYPES[e['lt']]:
            return ('log-field-wrong:log_type', {'got': repr(got['log_type'])})
    for f, d in DEFAULTS.items():
        key_present = any(FIELD.get(k, (None,))[0] == f for k in e) or (f == 'log_type' and 'lt' in e) or \
            (f == 'trace_identifier' and 'ti' in e) or (f == 'decomposed_message' and 'dm' in e)
        if not key_present and got.get(f, d) != d:
            return ('absent-key-changed-default:' + f, {'got': repr(got.get(f))[:100]})
    if 'ti' in e:
        bad = check_trace_id(got['trace_identifier'], e['ti'])
        if bad:
            return bad
    if 'dm' in e:
        bad = check_decomposed(got['decomposed_message'], e['dm'])
        if bad:
            return bad
    return None


# ---- trace identifier -----------------------------------------------------------------------------------------
NAMESPACES = {0: 'unknown', 2: 'activity', 3: 'trace', 4: 'log', 5: 'metadata', 6: 'signpost', 7: 'loss'}
TYPES = {2: [1, 2, 3], 3: [0, 1, 2, 0x10, 0x11], 4: [0, 1, 2, 0x10, 0x11], 5: [1, 2, 3, 4],
         6: [s | t for s in (0, 0x40, 0x80, 0xc0) for t in (0, 1, 2)], 7: [0], 0: [0]}
# byte 3: the log namespace defines 5 flag bits, the SIGNPOST namespace the same 5 plus has_name (0x80) (firehose tracepoint_private.h);
# the trace namespace defines none (a decoded value, if any, must still be the byte)
NS_FLAGS = {4: list(range(32)), 6: [0, 1, 2, 4, 8, 0x10, 0x80, 0x03, 0x82, 0x9f], 3: [0, 1, 0x80], 2: [0], 5: [0], 7: [0], 0: [0]}


def pack_ti(ns, ty, general, nsflags, code):
    # byte0 namespace | byte1 type | byte2 general flags (bit0 current_aid, bits1-3 pc_style, bit4 unique_pid, bit5 large_offset)
    # | byte3 namespace flags | u32 code
    return ns | (ty << 8) | (general << 16) | (nsflags << 24) | (code << 32)


def val(x):
    return x.value if hasattr(x, 'value') else x


def check_trace_id(t, word):
    if t is None:
        return ('trace-identifier-missing', {})
    ns, ty, general, nsflags, code = word & 0xff, (word >> 8) & 0xff, (word >> 16) & 0xff, (word >> 24) & 0xff, word >> 32
    exp = {'namespace': ns, 'type_': ty, 'has_current_aid': bool(general & 1), 'pc_style': (general >> 1) & 7,
           'has_unique_pid': bool(general & 0x10), 'has_large_offset': bool(general & 0x20), 'code': code}
    for k, v in exp.items():
        g = val(getattr(t, k))
        if (bool(g) if isinstance(v, bool) else int(g)) != v:
            return ('trace-identifier-field-wrong:' + k, {'word': hex(word), 'got': repr(getattr(t, k)), 'expected': v})
    if getattr(t.namespace, 'name', None) != NAMESPACES[ns]:
        return ('trace-identifier-field-wrong:namespace-name', {'word': hex(word), 'got': repr(t.namespace)})
    if t.flags is not None and int(val(t.flags)) != nsflags:
        return ('trace-identifier-field-wrong:flags', {'word': hex(word), 'got': repr(t.flags), 'expected': nsflags})
    if t.flags is None and ns in (4, 6):
        return ('trace-identifier-field-wrong:flags', {'word': hex(word), 'got': None, 'expected': nsflags})
    return None


def judge_ti(word):
    e = dict(copy.deepcopy(MAND))
    e['ti'] = word
    try:
        o = OsLogEvent.from_raw_log_event(e, STRINGS)
    except Exception as ex:
        return ('trace-identifier-decode-raised:' + type(ex).__name__, {'word': hex(word), 'error': repr(ex)[:150]})
    return check_trace_id(o.trace_identifier, word)


# ---- decomposed message ---------------------------------------------------------------------------------------
def segment_shapes():
    """segments over the optional sub-keys the decoder names (category/width/precision treated as mandatory)."""
    lps = [None, 9]
    ps = [None]
    for rs, t, tn, ty in itertools.product((None, 9), (None, [], [10, 9]), (None, 5), (None, 6)):
        p = {'w': 3, 'p': 4}
        if rs is not None:
            p['rs'] = rs
        if t is not None:
            p['t'] = t
        if tn is not None:
            p['tn'] = tn
        if ty is not None:
            p['ty'] = ty
        ps.append(p)
    as_ = [None]
    for av, pr, c, sc, st, orr in itertools.product((None, 0, 3), (None, 1), (1, 2, 3), (None, 7), (None, 8), (None, 'x')):
        a = {'c': c}
        if av is not None:
            a['a'] = av
        if pr is not None:
            a['p'] = pr
        if sc is not None:
            a['sc'] = sc
        if st is not None:
            a['st'] = st
        if orr is not None:
            a['or'] = 9 if c == 2 else 0x77
        as_.append(a)
    out = []
    for lp, p, a in itertools.product(lps, ps, as_):
        seg = {}
        if lp is not None:
            seg['lp'] = lp
        if p is not None:
            seg['p'] = p
        if a is not None:
            seg['a'] = a
        out.append(seg)
    return out


def ref_segment(seg):
    out = {}
    if 'lp' in seg:
        out['literal_prefix'] = STRINGS[seg['lp']]
    if 'p' in seg:
        p = seg['p']
        d = {}
        if 'rs' in p:
            d['raw_string'] = STRINGS[p['rs']]
        if p.get('t'):
            d['tokens'] = [STRINGS[x] for x in p['t']]
        if 'tn' in p:
            d['type_namespace'] = STRINGS[p['tn']]
        if 'ty' in p:
            d['type'] = STRINGS[p['ty']]
        d['width'] = p['w']
        d['precision'] = p['p']
        out['placeholder'] = d
    if 'a' in seg:
        a = seg['a']
        d = {}
        if 'a' in a:
            d['availability'] = a['a']
        if 'p' in a:
            d['privacy'] = a['p']
        d['category'] = a['c']
        if a['c'] == 1:
            if 'sc' in a:
                d['scalar_category'] = a['sc']
            if 'st' in a:
                d['scalar_type'] = a['st']
        if ('a' not in a or a['a'] == 3) and 'or' in a:
            d['object_representation'] = STRINGS[a['or']] if a['c'] == 2 else a['or']
        out['arg'] = d
    return out


def check_decomposed(got, dm):
    exp = {'placeholder_count': dm['pc'], 'state': dm['s']}
    if dm['pc']:
        exp['segments'] = [ref_segment(s) for s in dm['seg']]
    if got != exp:
        return ('decomposed-message-wrong', {'got': repr(got)[:300], 'expected': repr(exp)[:300]})
    return None


class C16(Check):
    pid = 'C16'
    level = 'exploration'
    rule = ('raw log records = mandatory keys + subsets of the 31 optional keys: every subset with <=3 keys present and every subset '
            'with <=3 keys absent (quick: <=2 / <=2), the full product over the 8 string-index keys (2^8) and over the 10 '
            'loss/signpost keys (2^10); timestamps sec {0,1,1.6e9,2^31-1,2^32-1} x usec {0,1,499999,500000,999999}; the same instants decoded while the process runs under the zones EST5EDT, IST-5:30, NZST-12NZDT, UTC; every string key pointing at string-index slot 0; log types (5); '
            'decomposed messages: every single-segment shape over the optional sub-keys (2 x 25 x 145), all pairs over a reduced '
            'set, and literal-only segments before/after/between placeholder segments (placeholder count < segment count); trace identifiers: namespace (7) x every type the format defines for it x all 64 values of the general flag bits x '
            'namespace flags (log: all 32 subsets; trace: 9 values incl. 0; 0 elsewhere) x code {0,1,2^32-1}; decoded directly '
            '(all; the single-segment shapes and the <=1-key subsets also with the raw dicts\' keys in reversed and in sorted order) and inside a v3 dump (subsets with <=1 key present/absent). Oracle: no exception; every present key appears in '
            'its field with its value (strings through the index, unix_date the exact UTC instant, segments in order); absent keys '
            'keep the defaults; identifier fields invert the bit packing. Distinct by construction; non-trivial = at least one '
            'optional key present.')
    assumptions = ('inside an argument dict the category key is treated as mandatory (the decoder reads it back unconditionally); '
                   'placeholder width/precision likewise', 'namespace-specific flags may be reported as None for namespaces other than log/trace',
                   'firehose_tracepoint_id layout transcribed from Apple\'s firehose headers (trusted base)')

    def bounds(self):
        return {'optional_keys': len(KEYS), 'subset_bound': 2 if self.tier == 'quick' else 3}

    def shards(self):
        r = 2 if self.tier == 'quick' else 3
        subs = []
        for k in range(r + 1):
            subs += list(itertools.combinations(KEYS, k))
        out = [('present', ch) for ch in chunked(subs, 24)] + [('absent', ch) for ch in chunked(subs, 24)]
        out += [('product', 'strings'), ('product', 'loss'), ('dates',), ('v3',), ('dm1',), ('dm2',)]
        out += [('ti', ns) for ns in NAMESPACES]
        return out

    def run_shard(self, desc, acc):
        kind = desc[0]
        if kind in ('present', 'absent'):
            for sub in desc[1]:
                present = set(sub) if kind == 'present' else set(KEYS) - set(sub)
                self._rec(acc, present, 'direct')
        elif kind == 'product':
            keys = STRING_KEYS if desc[1] == 'strings' else LOSS_KEYS
            for sub in subsets(keys):
                self._rec(acc, set(sub), 'direct')
                self._rec(acc, set(sub) | {'pid', 'ti', 'dm'}, 'direct')
        elif kind == 'dates':
            for sec in (0, 1, 1600000000, 2 ** 31 - 1, 2 ** 32 - 1):
                for usec in (0, 1, 499999, 500000, 999999):
                    self._rec(acc, {'p'}, 'direct', {'ud': {'sec': sec, 'usec': usec}})
            # the decoding process's own time zone is not part of the record: the same instants under four zones
            for tz in ('EST5EDT', 'IST-5:30', 'NZST-12NZDT', 'UTC'):
                for sec in (0, 1600000000, 1600000000 + 12 * 3600, 2 ** 31 - 1):
                    for usec in (0, 999999):
                        self._rec(acc, {'p'}, 'direct:TZ=' + tz, {'ud': {'sec': sec, 'usec': usec}})
                        self._rec(acc, set(KEYS), 'v3:TZ=' + tz, {'ud': {'sec': sec, 'usec': usec}})
            # the daylight-saving word of the three time-zone fields is a small integer code, not a flag
            for dt in (0, 1, 2, 3, 6):
                for mw in (0, -720, 480):
                    self._rec(acc, {'p'}, 'direct', {'utz': {'mw': mw, 'dt': dt}})
                    self._rec(acc, {'lsutz', 'leutz'}, 'direct', {'lsutz': {'mw': mw, 'dt': dt}, 'leutz': {'mw': -mw, 'dt': 6 - dt}})
            for lt in LOG_TYPES:
                self._rec(acc, {'lt'}, 'direct', {'lt': lt})
            # every optional key alone and all together, the same record object decoded twice
            for k in KEYS:
                self._rec(acc, {k}, 'twice')
            self._rec(acc, set(KEYS), 'twice')
            self._rec(acc, {'bt', 'p'}, 'direct', {'bt': [{'iu': bytes([i % 256]) * 16, 'io': i} for i in range(300)]})
            self._rec(acc, {'dm'}, 'direct', {'dm': {'pc': 40, 's': 2, 'seg': [{'lp': 9, 'p': {'w': i, 'p': i + 1}, 'a': {'c': 1, 'sc': i}} for i in range(40)]}})
            # string-index slot 0 is a slot like any other
            for k in STRING_KEYS:
                self._rec(acc, {k}, 'direct', {k: 0})
                self._rec(acc, set(KEYS), 'direct', {k: 0})
            self._rec(acc, set(STRING_KEYS), 'direct', {k: 0 for k in STRING_KEYS})
            self._rec(acc, set(STRING_KEYS), 'v3', {k: 0 for k in STRING_KEYS})
            # segments: an argument without a placeholder, with and without a literal prefix
            for a in ({'c': 1, 'sc': 7, 'st': 8}, {'c': 2, 'or': 9}, {'c': 3, 'a': 3, 'or': 5, 'p': 1}):
                for seg in ({'a': a}, {'lp': 9, 'a': a}):
                    self._rec(acc, {'dm'}, 'direct', {'dm': {'pc': 1, 's': 2, 'seg': [seg]}})
                    self._rec(acc, {'dm'}, 'direct', {'dm': {'pc': 2, 's': 2, 'seg': [{'p': {'w': 1, 'p': 2}}, seg]}})
        elif kind == 'v3':
            for k in range(2):
                for sub in itertools.combinations(KEYS, k):
                    self._rec(acc, set(sub), 'v3')
                    self._rec(acc, set(KEYS) - set(sub), 'v3')
                    self._rec(acc, set(sub), 'v3-xml')          # the two log blocks written as XML property lists
                    self._rec(acc, set(sub), 'v3-sparse')
                    self._rec(acc, set(KEYS) - set(sub), 'v3-sparse')
                    for via in ('reversed', 'sorted'):
                        self._rec(acc, set(sub), via)
                        self._rec(acc, set(KEYS) - set(sub), via)
            # identifiers of the signpost / loss / activity namespaces with every OTHER optional key absent: absent keys keep their defaults
            for ns, ty in ((6, 0x41), (6, 0x82), (6, 0xc2), (7, 0), (2, 1), (3, 0x10)):
                self._rec(acc, {'ti'}, 'direct', {'ti': pack_ti(ns, ty, 0, 0x80 if ns == 6 else 0, 5)})
            # loss-window time zones that differ from the record's own
            self._rec(acc, {'lsutz', 'leutz', 'lsud', 'leud'}, 'direct', {'utz': {'mw': 7, 'dt': 1}, 'lsutz': {'mw': -60, 'dt': 0}, 'leutz': {'mw': 300, 'dt': 1}})
        elif kind == 'dm1':
            for seg in segment_shapes()[::7]:
                self._rec(acc, {'dm'}, 'v3-sparse', {'dm': {'pc': 1, 's': 2, 'seg': [seg]}})
            for seg in segment_shapes():
                for via in ('direct', 'reversed', 'sorted'):
                    self._rec(acc, {'dm'}, via, {'dm': {'pc': 1, 's': 2, 'seg': [seg]}})
        elif kind == 'dm2':
            shapes = segment_shapes()
            red = shapes[::37]
            for a, b in itertools.product(red, repeat=2):
                self._rec(acc, {'dm'}, 'direct', {'dm': {'pc': 2, 's': 2, 'seg': [a, b]}})
            self._rec(acc, {'dm'}, 'direct', {'dm': {'pc': 0, 's': 0}})
            # placeholder count = number of segments that carry a placeholder; literal-only segments before/after/between them
            with_p = [x for x in shapes if 'p' in x][::29]
            lit = {'lp': 9}
            for a in with_p:
                for segs in ([a, lit], [lit, a], [lit, a, lit]):
                    self._rec(acc, {'dm'}, 'direct', {'dm': {'pc': 1, 's': 2, 'seg': segs}})
                for b in with_p[::3]:
                    for segs in ([a, b, lit], [a, lit, b], [lit, a, b, lit]):
                        self._rec(acc, {'dm'}, 'direct', {'dm': {'pc': 2, 's': 2, 'seg': segs}})
        else:
            ns = desc[1]
            for ty in TYPES[ns]:
                for general in range(64):
                    for nf in NS_FLAGS[ns]:
                        for code in (0, 1, 2 ** 32 - 1):
                            w = pack_ti(ns, ty, general, nf, code)
                            bad = judge_ti(w)
                            acc.case(nontrivial=True, transitions=1, outcome=h64((ns, ty, nf)))
                            if bad:
                                sig = bad[0] + (f'@namespace={NAMESPACES[ns]}' if 'raised' in bad[0] else '')
                                acc.violation(sig, {'kind': 'ti', 'word': hex(w)}, bad[1])
            acc.sample({'trace_identifier_word': hex(pack_ti(ns, TYPES[ns][0], 0x2b, NS_FLAGS[ns][-1], 1))})

    def _rec(self, acc, present, via, overrides=None):
        bad = judge_record(present, via, overrides)
        acc.case(nontrivial=bool(present), transitions=1, outcome=h64(tuple(sorted(present))) if len(present) <= 1 else None)
        if bad:
            sig = bad[0]
            if sig.startswith('log-decode-raised') and 'tai' in present:
                sig += ':key=tai'
            elif sig.startswith('log-decode-raised') and 'ti' in present and len(present) <= 4:
                sig += ':with-ti'
            acc.violation(sig, {'kind': 'rec', 'present': sorted(present), 'via': via, 'overrides': repr(overrides)}, bad[1])
        elif acc.want_sample() and 2 <= len(present) <= 3:
            acc.sample({'optional_keys_present': sorted(present), 'via': via})

    def replay(self, case):
        if case['kind'] == 'ti':
            bad = judge_ti(int(case['word'], 16))
            if bad and 'raised' in bad[0]:
                bad = (bad[0] + f"@namespace={NAMESPACES[int(case['word'], 16) & 0xff]}", bad[1])
            return [bad] if bad else []
        ov = eval(case['overrides']) if case['overrides'] != 'None' else None
        bad = judge_record(set(case['present']), case['via'], ov)
        if bad and bad[0].startswith('log-decode-raised') and 'tai' in case['present']:
            bad = (bad[0] + ':key=tai', bad[1])
        elif bad and bad[0].startswith('log-decode-raised') and 'ti' in case['present'] and len(case['present']) <= 4:
            bad = (bad[0] + ':with-ti', bad[1])
        return [bad] if bad else []


if __name__ == '__main__':
    main(C16)
