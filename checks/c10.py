"""C10 — syscall results: errors take precedence and come only from the END record.

Every BSD decoder outside the statement's exempt list x START tuples x END tuples (error word over 0, every errno 1..106,
unknown and huge codes; return word over corner values) x lookups in the window."""
import itertools
import re

from mc.run import Check, main, h64
from mc import ev as E
from mc import domains as D
from mc.callstyle import split_call, renderings
from mc.space import chunked
from checks.c09 import lookups
from pykdebugparser.traces_parser import TracesParser

M64 = (1 << 64) - 1
BRACE_PATH = '/{result}/{flags}/{0}/{'      # a path whose text is made of format fields
EXEMPT = {'BSC_getpid', 'BSC_getuid', 'BSC_geteuid', 'BSC_getppid', 'BSC_getegid', 'BSC_getgid', 'BSC_getpgrp', 'BSC_umask',
          'BSC_sync', 'BSC_sys_getdtablesize', 'BSC_getlogin', 'BSC_execve', 'BSC_vfork', 'BSC_bsdthread_create',
          'BSC_abort_with_payload'}
ERRS = [0] + list(range(1, 107)) + [107, 110, 250, 255, 9999, 1 << 31, 1 << 32, 1 << 63, M64]     # 110, 250: decimal forms that end in 0
# words that read as the kernel's negative pseudo-errors (ERESTART -1, EJUSTRETURN -2, ...) when taken as signed 32 / 64 bit
ERRS += [0xfffffffd, 0xfffffffe, 0xffffffff, (1 << 32) + 2, (1 << 63) + 2, M64 - 2, M64 - 1]
RETS = [0, 1, 10, 0x55, 1000, 1 << 31, 1 << 63, M64]
TAILS = [(0, 0), (0x66, 0x77)]
STARTS = [(0x1111, 0x2222, 0x3333, 0x4444), (0, 0, 0, 0), (M64, M64, M64, M64)]
ERR_RE = re.compile(r'^, errno: (?:[A-Za-z_][A-Za-z_0-9]*\((\d+)\)|(\d+))(?![A-Za-z_0-9(])(.*)$')
QUOTED = re.compile(r'"[^"]*"')
NUM_RE = re.compile(r'(?<![A-Za-z_0-9])(-?0x[0-9a-fA-F]+|-?\d+)(?![A-Za-z_0-9])')


def bsd_decoders():
    return [n for n in D.decoder_names() if n.startswith('BSC_') and n not in EXEMPT]


def render(name, s, e, nlook, shape=None):
    """shape None: START, lookups, END. 'long': 5000 stand-alone same-thread records in between. 'crossing': another thread is
    inside the same call with other END words (A.START B.START A.END B.END), parser built with a populated thread map."""
    p = E.new_traces_parser(prefilled=shape in ('crossing', 'enclosing'))
    mid = lookups(nlook)
    if shape == 'long':
        mid = [E.ev('MACH_vm_page_release' if i % 2 else 'MACH_WAIT', 0, (0x9a9a, 0x9b9b, 0x9c9c, 0x9d9d)) for i in range(5000)] + mid
    evs = [E.ev(name, 1, s)] + mid + [E.ev(name, 2, e)]
    judged = len(evs) - 1
    if shape == 'crossing':
        evs = [E.ev(name, 1, s), E.ev(name, 1, s, tid=2)] + mid + [E.ev(name, 2, e), E.ev(name, 2, (0x9a, 0x9b9b, 0x9c9c, 0x9d9d), tid=2)]
        judged = len(evs) - 2
    if shape == 'enclosing':
        # the other thread's whole call falls inside ours: A.START B.START B.END A.END
        evs = [E.ev(name, 1, s), E.ev(name, 1, s, tid=2), E.ev(name, 2, (0x9a, 0x9b9b, 0x9c9c, 0x9d9d), tid=2)] + mid + [E.ev(name, 2, e)]
        judged = len(evs) - 1
    if shape == 'after-an-open-that-returned-the-first-word':
        # history: an earlier successful open() of the same thread returned, as its descriptor, the value this call's first START word holds
        from mc import build as B
        pre = [E.ev('BSC_open', 1, (1, 0, 0, 0))] + [E.ev('VFS_LOOKUP', q, data=d) for d, q in B.lookup_chunks(0x71, '/tmp/spool/a')] + [E.ev('BSC_open', 2, (0, s[0], 0, 0))]
        evs = pre + evs
        judged = len(evs) - 1
        out = [t for t in p.feed_generator(E.restamp(evs)) if t.ktraces[-1].eventid == E.n2i(name) and t.ktraces[-1].timestamp == judged]
        return E.stable_str(out[0]) if len(out) == 1 else None
    if shape == 'same-code-ALL-record-inside':
        # a record of the call's OWN code carrying the ALL qualifier (START|END) sits inside the window: the result comes from the END record
        evs = evs[:1] + [E.ev(name, 3, s), E.ev(name, 3, s)] + evs[1:]        # (their words are the START words: in the domain of the decoder)
        judged = len(evs) - 1
        out = [t for t in p.feed_generator(E.restamp(evs)) if t.ktraces[0].eventid == E.n2i(name) and t.ktraces[-1].timestamp == judged and len(t.ktraces) > 1]
        return E.stable_str(out[0]) if len(out) == 1 else None
    if shape == 'tables-name-the-words':
        # the parser's thread / process tables know every word of the END record as a thread id and as a process id (with names that
        # look like results): the result part is a function of the END record alone
        from pykdebugparser.traces_parser import TracesParser
        words = [w for w in e if w] + [1]
        p = TracesParser(E.codes(), {w: w for w in words}, {w: 'errno: EPERM(1)' if i % 2 else 'count: 7' for i, w in enumerate(words)})
    if shape == 'brace-path':
        from mc import build as B
        evs = evs[:1] + [E.ev('VFS_LOOKUP', q, data=d) for d, q in B.lookup_chunks(0x70, BRACE_PATH)] * 2 + evs[-1:]
        judged = len(evs) - 1
        out = [t for t in p.feed_generator(E.restamp(evs)) if t.ktraces[0].eventid == E.n2i(name) and t.ktraces[-1].timestamp == judged]
        return E.stable_str(out[0]) if len(out) == 1 else None
    if shape == 'with-related-records':
        # every code of the table whose name starts with this call's name (BSC_mmap_extended_info, ...) nested in the window with words
        # that are nobody's result
        base = name[:-len('_nocancel')] if name.endswith('_nocancel') else name
        rel = [E.ev(code, 0, (0x1_0000_4000, 0x2_0000_0001, 0x7fff_ffff_ffff, 9)) for code, nm in sorted(E.codes().items())
               if nm.startswith(base) and nm not in (base, base + '_nocancel') and (code & 3) == 0 and nm not in p.handlers]   # undecoded ones only
        evs = evs[:1] + rel + evs[1:]
        judged = len(evs) - 1
        out = [t for t in p.feed_generator(E.restamp(evs)) if t.ktraces[0].eventid == E.n2i(name) and t.ktraces[-1].timestamp == judged]
        return E.stable_str(out[0]) if len(out) == 1 else None
    if shape == 'nested-then-orphan-end':
        # our call nested in another one; after both have ended, an END of our call whose START is not in the dump: it prints nothing
        oth = 'BSC_getppid' if name != 'BSC_getppid' else 'BSC_getpid'
        evs = [E.ev(oth, 1, (0x9a9a, 0x9b9b, 0x9c9c, 0x9d9d))] + evs
        judged = len(evs) - 1
        evs = evs + [E.ev(oth, 2, (0x9a, 0x9b9b, 0x9c9c, 0x9d9d)), E.ev('MACH_WAIT', 0, (0x10, 0, 0, 0)), E.ev(name, 2, (0x9a, 0x9b9b, 0x9c9c, 0x9d9d))]
        out = [t for t in p.feed_generator(E.restamp(evs)) if t.ktraces[-1].eventid == E.n2i(name)]
        if len(out) != 1 or out[0].ktraces[-1].timestamp != judged:
            return None
        return E.stable_str(out[0])
    if shape in ('same-thread-crossing', 'start-without-end-after'):
        oth = 'BSC_getppid' if name != 'BSC_getppid' else 'BSC_getpid'
        if shape == 'same-thread-crossing':
            # overlapping, not nested, on ONE thread: other.START mine.START other.END mine.END
            evs = [E.ev(oth, 1, (0x9a9a, 0x9b9b, 0x9c9c, 0x9d9d)), evs[0], E.ev(oth, 2, (0x9a, 0x9b9b, 0x9c9c, 0x9d9d))] + evs[1:]
            judged = len(evs) - 1
        else:
            # the dump ends inside the NEXT call of the same kind (its START is the last record) and inside another call
            judged = len(evs) - 1
            evs = evs + [E.ev(oth, 1, (0x9a9a, 0x9b9b, 0x9c9c, 0x9d9d)), E.ev(name, 1, s)]
        out = [t for t in p.feed_generator(E.restamp(evs)) if t.ktraces[0].eventid == E.n2i(name)]
        if len(out) != 1 or out[0].ktraces[-1].timestamp != judged:
            return None
        return E.stable_str(out[0])
    if shape in ('other-open-inside', 'other-open-before'):
        # another call of the same thread whose END record was lost is still open when ours ends (opened inside / before ours)
        other = E.ev('BSC_getuid' if name != 'BSC_getuid' else 'BSC_getpid', 1, (0x9a9a, 0x9b9b, 0x9c9c, 0x9d9d))
        evs = [evs[0], other] + evs[1:] if shape == 'other-open-inside' else [other] + evs
        judged = len(evs) - 1
        out = [t for t in p.feed_generator(E.restamp(evs)) if t.ktraces[0].eventid == E.n2i(name) and t.ktraces[-1].timestamp == judged]
        return E.stable_str(out[0]) if len(out) == 1 else None
    if shape == 'odd-timestamps':
        st = E.restamp(evs)
        # nested records stamped later than the END / on the END's tick / before the START
        st = [st[0]._replace(timestamp=500)] + [e._replace(timestamp=(900 + i) if i % 2 else 500) for i, e in enumerate(st[1:-1])] + [st[-1]._replace(timestamp=500)]
        out = [t for t in p.feed_generator(st) if type(t).__name__ != 'VfsLookup']
        return E.stable_str(out[0]) if len(out) == 1 else None
    out = [t for t in p.feed_generator(E.restamp(evs)) if t.ktraces[0].eventid == evs[0].eventid and t.ktraces[-1].timestamp == judged]
    if len(out) != 1:
        return None
    return E.stable_str(out[0])


SW = ['show_timestamp', 'show_name', 'show_func_qual', 'show_tid', 'show_process', 'show_args']


def judge_listing_switches(name, acc):
    """the call through the trace listing of a dump file under all 2^6 display switches (colour off): the one line always ends with
    the result part that str(trace) shows (no switch removes or rewrites the result)."""
    import io
    from mc import build as B
    from pykdebugparser.pykdebugparser import PyKdebugParser
    bad = []
    s, _ = D.in_domain(name, 'se', STARTS[0], (0, 0, 0, 0), 1)
    for e in ((2, 0x55, 0x66, 0x77), (0, 0x55, 0x66, 0x77), (9999, 0, 0, 0)):
        try:
            plain = render(name, s, e, 0)
        except Exception:
            continue
        sc = split_call(plain) if plain else None
        if sc is None:
            continue
        rest = sc[2]
        blob = B.v2([(1, 10, 'p')], 0, [B.rec(5, s, 1, E.n2i(name) | 1), B.rec(6, e, 1, E.n2i(name) | 2)])
        for cfg in itertools.product((False, True), repeat=6):
            f = PyKdebugParser()
            f.color = False
            for k, v in zip(SW, cfg):
                setattr(f, k, v)
            try:
                lines = [E.stable_str(x) if not isinstance(x, str) else x for x in f.formatted_traces(io.BytesIO(blob), dict(E.codes()))]
            except Exception as ex:
                bad.append((f'listing-raised:{type(ex).__name__}@{name}', {'decoder': name, 'shape': 'listing-switches', 'end': [hex(x) for x in e]}, {'error': repr(ex)[:200]}))
                break
            acc.case(nontrivial=True, transitions=2)
            if len(lines) != 1 or not lines[0].endswith(rest):
                bad.append((f'result-part-differs-under-display-switches@{name}', {'decoder': name, 'shape': 'listing-switches', 'end': [hex(x) for x in e]},
                            {'switches': dict(zip(SW, cfg)), 'lines': lines[:2], 'result_part': rest}))
                break
    return bad


def judge_decoder(name, starts, nlooks, acc, full=True):
    """all END tuples for one decoder (full=False: the START tuples after the first one meet a reduced set of error words);
    returns list of (sig, case, detail)"""
    bad = []
    per_end_rest = {}
    for si, s0 in enumerate(starts):
        ood = s0 == 'OUT-OF-TABLE'
        if ood:
            # enum-valued START words outside their table: the pinned tree refuses to decode such a call (it raises); a tree that
            # does decode it owes it the same result part
            en = [k for k in D.enums(name, 'se') if k[0] == 's']
            if not en:
                continue
            s = list(STARTS[0])
            for k in en:
                s[int(k[1])] = 0x7fff3
            s = tuple(s)
        else:
            s, _ = D.in_domain(name, 'se', s0, (0, 0, 0, 0), 1)
        for nlook in nlooks:
            call0 = None
            extra0 = None
            for err in (ERRS if (full or si == 0) and not ood else (0, 2, 9999, 0xfffffffe, M64 - 1, M64)):
                for ret in RETS:
                    for tail in TAILS:
                      for shape in ((None, 'long', 'crossing', 'enclosing', 'odd-timestamps', 'other-open-inside', 'other-open-before', 'same-thread-crossing', 'start-without-end-after', 'with-related-records', 'nested-then-orphan-end', 'brace-path', 'tables-name-the-words', 'after-an-open-that-returned-the-first-word', 'same-code-ALL-record-inside') if (err in (0, 2, 9999) and ret in (0x55, M64) and tail == TAILS[1] and si == 0) else (None,)):
                        if shape == 'brace-path' and name == 'BSC_fsgetpath':
                            continue       # its result part quotes the looked-up path (the documented leniency): nothing to compare with
                        e = (err, ret) + tail
                        case = {'decoder': name, 'start': [hex(x) for x in s], 'end': [hex(x) for x in e], 'lookups': nlook, 'shape': shape}
                        try:
                            txt = render(name, s, e, nlook, shape)
                            if txt is None and shape is not None:
                                bad.append((f'result-lost-in-{shape}-window@{name}', case, {}))
                                continue
                        except Exception as ex:
                            if ood:
                                acc.count('out_of_table_start_words_refused')
                                acc.case(nontrivial=False, transitions=2)
                                continue
                            bad.append((f'render-raised:{type(ex).__name__}@{name}', case, {'error': repr(ex)[:200]}))
                            acc.case(nontrivial=True, transitions=2)
                            continue
                        sc = split_call(txt) if txt is not None else None
                        if sc is None:
                            acc.case(nontrivial=False, transitions=2)
                            acc.count('not_call_style_runs')
                            continue
                        fn, toks, rest = sc
                        acc.case(nontrivial=err != 0 or bool(rest), transitions=2, outcome=h64((name, rest)))
                        call = (fn, tuple(toks))
                        if shape == 'brace-path':
                            # the looked-up path is made of format fields: whatever quoted text the call shows is that path, verbatim
                            q = QUOTED.findall(txt)
                            if any(x not in ('""', '"' + BRACE_PATH + '"') for x in q):
                                bad.append((f'call-part-depends-on-END@{name}', case, {'text': txt, 'note': 'a path made of {fields} was expanded'}))
                        elif call0 is None:
                            call0 = call
                        elif call != call0:
                            bad.append((f'call-part-depends-on-END@{name}', case, {'text': txt, 'other': repr(call0)}))
                        if err != 0:
                            m = ERR_RE.match(rest)
                            if not m:
                                bad.append((f'error-not-reported-alone@{name}', case, {'text': txt, 'result_part': rest}))
                            elif int(m.group(1) or m.group(2)) != err:
                                bad.append((f'wrong-error-code@{name}', case, {'text': txt}))
                            else:
                                # anything after the errno clause (fsgetpath appends the looked-up path) must not come from
                                # the END record: it is the same text for every failing END tuple
                                extra = m.group(3)
                                if extra0 is None:
                                    extra0 = extra
                                elif extra != extra0:
                                    bad.append((f'error-not-reported-alone@{name}', case, {'text': txt, 'result_part': rest}))
                        else:
                            if 'errno' in rest:
                                bad.append((f'errno-shown-on-success@{name}', case, {'text': txt}))
                            else:
                                ok = renderings(e[1]) | renderings(e[2]) | renderings(e[3])
                                for lit in NUM_RE.findall(QUOTED.sub('""', rest)):
                                    if lit.lower() not in ok:
                                        bad.append((f'success-value-not-from-END-record@{name}', case,
                                                    {'text': txt, 'literal': lit}))
                                        break
                        key = (e, nlook)
                        if shape is not None and key in per_end_rest and per_end_rest[key][0] != rest:
                            bad.append((f'result-part-differs-in-{shape}-window@{name}', case, {'text': txt, 'plain_result_part': per_end_rest[key][0]}))
                            continue
                        if key in per_end_rest:
                            if per_end_rest[key][0] != rest:
                                bad.append((f'result-part-depends-on-START@{name}', case,
                                            {'text': txt, 'other_start': per_end_rest[key][1]}))
                        else:
                            per_end_rest[key] = (rest, [hex(x) for x in s])
                        if not bad and err == 2 and ret == 0x55 and acc.want_sample():
                            acc.sample({'decoder': name, 'end': [hex(x) for x in e], 'text': txt})
    return bad


class C10(Check):
    pid = 'C10'
    level = 'exploration'
    rule = ('every BSD decoder outside the exempt list (15 names from the statement) x START tuples {junk, zeros, all-ones} (enum words forced in-domain; plus one tuple with the enum-valued words OUTSIDE their table, judged only if the tree decodes it at all; quick: zeros and all-ones meet error words {0, 2, 9999, 2^64-1} only) x END tuples = error word {0, every errno 1..106, 107, 110, 250, 255, the words that read as negative pseudo-errors when taken as signed (2^32-3..2^32-1, 2^32+2, 2^63+2, 2^64-3, 2^64-2), '
            '9999, 2^31, 2^32, 2^63, 2^64-1} x return word {0,1,10,0x55,1000,2^31,2^63,2^64-1} x words 2,3 {(0,0),(0x66,0x77)} x '
            'lookups in window {6 (quick); 0 and 6 (thorough)}; for 12 END tuples per decoder also a window with 5000 stand-alone '
            'same-thread records between START and END, and crossing / enclosing windows (another thread inside the same call with other END '
            'words: A.START B.START A.END B.END and A.START B.START B.END A.END, parser built with a populated thread map), a window whose nested records carry the END tick or later ticks, and windows with another call of the same thread (its END lost) still open, opened inside / before ours, overlapping ours without nesting, and with the dump ending inside the next call of the same kind (no END: nothing more may be printed), followed by an orphan END of the same call after a nesting, and with every table code whose name starts with the name of the call nested in the window. Oracle: error!=0 => result part is exactly ", errno: NAME(code)" '
            'or ", errno: code" with that code; error==0 => no errno, every number shown renders END word 1..3; call part '
            'identical across END tuples; result part identical across START tuples. Distinct by construction; non-trivial = '
            'error word non-zero or a success value is shown.')
    assumptions = ('error names are not judged here (C18)', 'exempt list transcribed from the statement')

    def bounds(self):
        return {'decoders': len(bsd_decoders()), 'end_tuples': len(ERRS) * len(RETS) * len(TAILS)}

    def shards(self):
        return [('dec', ch) for ch in chunked(bsd_decoders(), 24)]

    def run_shard(self, desc, acc):
        starts = STARTS + ['OUT-OF-TABLE']
        nlooks = [6] if self.tier == 'quick' else [0, 6]
        for name in desc[1]:
            for sig, case, detail in judge_decoder(name, starts, nlooks, acc, full=self.tier != 'quick'):
                acc.violation(sig, case, detail)
            for sig, case, detail in judge_listing_switches(name, acc):
                acc.violation(sig, case, detail)

    def replay(self, case):
        name = case['decoder']
        acc_dummy = type('A', (), {'case': lambda *a, **k: None, 'count': lambda *a, **k: None, 'want_sample': lambda s: False,
                                   'sample': lambda *a: None})()
        if case.get('shape') == 'listing-switches':
            return [(sig, detail) for sig, c, detail in judge_listing_switches(name, acc_dummy)][:5]
        bad = judge_decoder(name, STARTS + ['OUT-OF-TABLE'], [0, 6], acc_dummy)
        return [(sig, detail) for sig, c, detail in bad][:5]


if __name__ == '__main__':
    main(C10)
