"""C18 — output is a function of the dump, not of the host operating system.

Host configurations are modelled by the three interpreter tables bsd.py imports (errno, signal.Signals, socket): they are
swapped, one seam at a time and all together, for Darwin's, a FreeBSD-like and an empty table inside the worker process;
every input is rendered under every configuration and the texts must be identical. A static scan of the package's imports
keeps "own every source of host dependence" true when the code changes."""
import ast
import enum
import os
import re
import types

from mc.run import Check, main, h64, REPO
from mc import ev as E
from mc import domains as D
from mc import darwin as DW
from mc.space import chunked
from pykdebugparser.traces_parser import TracesParser
from pykdebugparser.trace_handlers import bsd

REAL = {'errno': bsd.errno, 'Signals': bsd.Signals, 'socket': bsd.socket}


def mk_errno(table):
    m = types.SimpleNamespace()
    m.errorcode = dict(table)
    for k, v in table.items():
        setattr(m, v, k)
    return m


def mk_signals(table):
    return enum.IntEnum('Signals', {v: k for k, v in table.items()})


def mk_socket(af, kinds, sol):
    m = types.SimpleNamespace()
    m.AddressFamily = enum.IntEnum('AddressFamily', {v: k for k, v in af.items()})
    m.SocketKind = enum.IntEnum('SocketKind', {v: k for k, v in kinds.items()})
    m.SOL_SOCKET = sol
    return m


FREEBSD_ERRNO = dict(DW.ERRNO)
FREEBSD_ERRNO.update({45: 'EOPNOTSUPP', 85: 'ECANCELED', 86: 'EILSEQ', 87: 'ENOATTR', 88: 'EDOOFUS', 89: 'EBADMSG', 90: 'EMULTIHOP',
                      91: 'ENOLINK', 92: 'EPROTO', 93: 'ENOTCAPABLE', 94: 'ECAPMODE', 95: 'ENOTRECOVERABLE', 96: 'EOWNERDEAD', 97: 'EINTEGRITY'})
for _k in range(98, 107):
    FREEBSD_ERRNO.pop(_k, None)
FREEBSD_SIGNALS = dict(DW.SIGNALS)
FREEBSD_SIGNALS.update({32: 'SIGTHR', 33: 'SIGLIBRT'})
FREEBSD_AF = {k: v for k, v in DW.AF.items() if k <= 26}
FREEBSD_AF.update({28: 'AF_INET6', 29: 'AF_NATM', 30: 'AF_ATM', 32: 'AF_NETGRAPH', 33: 'AF_SLOW', 36: 'AF_BLUETOOTH', 37: 'AF_IEEE80211'})

HOSTS = {
    'darwin': {'errno': mk_errno(DW.ERRNO), 'Signals': mk_signals(DW.SIGNALS), 'socket': mk_socket(DW.AF, DW.SOCK, 0xffff)},
    'freebsd': {'errno': mk_errno(FREEBSD_ERRNO), 'Signals': mk_signals(FREEBSD_SIGNALS), 'socket': mk_socket(FREEBSD_AF, DW.SOCK, 0xffff)},
    'empty': {'errno': mk_errno({}), 'Signals': mk_signals({0: 'SIGNONE'}), 'socket': mk_socket({0: 'AF_UNSPEC'}, {1: 'SOCK_STREAM'}, -1)},
}
SEAMS = ['errno', 'Signals', 'socket']


def configurations():
    out = [('real', {})]
    for host, tab in HOSTS.items():
        for seam in SEAMS:
            out.append((f'{host}:{seam}', {seam: tab[seam]}))
        out.append((f'{host}:all', dict(tab)))
    return out


class Host:
    def __init__(self, sub):
        self.sub = sub

    def __enter__(self):
        for k, v in self.sub.items():
            setattr(bsd, k, v)

    def __exit__(self, *a):
        for k, v in REAL.items():
            setattr(bsd, k, v)


def render(name, s, e):
    p = TracesParser(E.codes(), {}, {})
    try:
        out = [t for t in p.feed_generator(E.restamp([E.ev(name, 1, s), E.ev(name, 2, e)]))]
        return str(out[-1])
    except Exception as ex:
        return f'RAISED {type(ex).__name__}'


NORMALISE = {
    'errno': [(re.compile(r'errno: [A-Za-z_][A-Za-z_0-9]*\(\d+\)|errno: \d+'), 'errno: #')],
    'Signals': [(re.compile(r'\bSIG[A-Z0-9]+\b|\b\d+\b'), 'SIG#')],
    'socket': [(re.compile(r'\b(pseudo_)?AF_\w+\b|\bSOCK_\w+\b|\bSOL_SOCKET\b|\bSO_\w+\b|\b0x[0-9a-f]+\b|\b\d+\b'), '#')],
}


def classify(name, cfg, a, b):
    """signature of a difference between text a (real host) and b (configuration cfg)."""
    seams = SEAMS if cfg.endswith(':all') else [cfg.split(':')[1]]
    site = {'BSC_pipe': 'handle_pipe', 'BSC_sigaction': 'handle_sigaction', 'BSC_socket': 'handle_socket',
            'BSC_socketpair': 'handle_socketpair', 'BSC_socket_delegate': 'handle_socket_delegate',
            'BSC_getsockopt': 'sockopt_format_level_and_option', 'BSC_setsockopt': 'sockopt_format_level_and_option'}
    relevant = ['errno']
    if name == 'BSC_sigaction':
        relevant.append('Signals')
    if name in site and name not in ('BSC_pipe', 'BSC_sigaction'):
        relevant.append('socket')
    x, y = a, b
    used = []
    for seam in seams:
        if seam not in relevant:
            continue
        x2, y2 = x, y
        for rx, rep in NORMALISE[seam]:
            x2, y2 = rx.sub(rep, x2), rx.sub(rep, y2)
        if x2 != y2 or (x2, y2) != (x, y):
            if x != y:
                used.append(seam)
        x, y = x2, y2
        if x == y:
            break
    raised = (a.startswith('RAISED ValueError') or b.startswith('RAISED ValueError')) and len(relevant) > 1
    if x == y or raised:
        table_seams = [u for u in used if u != 'errno']
        if raised or table_seams:
            seam = relevant[-1]
            return f'host-table:{seam}@{site[name]}'
        if used == ['errno']:
            return 'host-table:errno@' + ('handle_pipe' if name == 'BSC_pipe' else 'serialize_result')
    return f'host-dependent-output:{cfg.split(":")[1]}@{name}'


HOST_DEPENDENT_MODULES = {'errno', 'signal', 'socket', 'os', 'sys', 'platform', 'locale', 'time', 'getpass', 'pwd', 'grp', 'resource',
                          'termios', 'fcntl', 'select', 'tempfile', 'shutil', 'subprocess', 'multiprocessing', 'threading', 'random',
                          'secrets', 'uuid1', 'ssl', 'mmap', 'sysconfig', 'site', 'posix', 'stat', 'tty', 'curses', 'readline', 'selectors',
                          'asyncio', 'getopt', 'gettext', 'calendar', 'zoneinfo', 'posixpath', 'ntpath', 'glob', 'fnmatch', 'io_uring'}
MODELLED = {('trace_handlers/bsd.py', 'errno'), ('trace_handlers/bsd.py', 'signal'), ('trace_handlers/bsd.py', 'socket')}


def import_scan():
    found = []
    root = os.path.join(REPO, 'pykdebugparser')
    for dp, dn, fn in os.walk(root):
        for f in fn:
            if not f.endswith('.py'):
                continue
            path = os.path.join(dp, f)
            rel = os.path.relpath(path, root)
            tree = ast.parse(open(path).read())
            for node in ast.walk(tree):
                mods = []
                if isinstance(node, ast.Import):
                    mods = [a.name for a in node.names]
                elif isinstance(node, ast.ImportFrom) and node.module and node.level == 0:
                    mods = [node.module]
                elif isinstance(node, ast.Call) and getattr(node.func, 'id', getattr(node.func, 'attr', '')) in ('__import__', 'import_module'):
                    mods = [a.value for a in node.args[:1] if isinstance(a, ast.Constant) and isinstance(a.value, str)]
                for m in mods:
                    top = m.split('.')[0]
                    if top in HOST_DEPENDENT_MODULES and (rel, top) not in MODELLED:
                        if rel == '__main__.py':
                            continue
                        found.append((rel, top))
    return sorted(set(found))


M64 = (1 << 64) - 1
BASE_S = (0x1111, 0x2222, 0x3333, 0x4444)


class C18(Check):
    pid = 'C18'
    level = 'model_checking'
    rule = ('host configurations = {real host} + {Darwin, FreeBSD-like, empty} x {errno only, Signals only, socket only, all three} '
            '(13 configurations), installed by rebinding the names in pykdebugparser.trace_handlers.bsd inside the worker and '
            'restored after each case. Inputs: every BSD decoder x END error word 0..255 and 9999; sigaction x signal 0..40; '
            'socket/socketpair/socket_delegate x family 0..45 x type 0..7; get/setsockopt x level {0,1,6,0xffff} x every declared '
            'SO_ option + 2 undeclared. Oracle: the rendered text (or the exception type) is identical under every configuration. '
            'Plus a static scan of every import in pykdebugparser/** against the list of host-dependent stdlib modules: anything '
            'beyond the three modelled seams is a violation. states = configurations; transitions = renders; non-trivial = input '
            'whose rendering shows a host-table name under at least one configuration.')
    assumptions = ('the host is modelled by the interpreter tables the code imports today plus the import scan; a dependency through '
                   'another channel (environment variable read in a C extension) is not modelled',
                   'signature of a difference = (seam, call site) when the texts differ only in the table-derived token')

    def bounds(self):
        return {'configurations': [c for c, _ in configurations()]}

    def shards(self):
        names = [n for n in D.decoder_names() if n.startswith('BSC_')]
        return [('errno', ch) for ch in chunked(names, 32)] + [('signal',), ('socket', 'BSC_socket'), ('socket', 'BSC_socketpair'),
                                                               ('socket', 'BSC_socket_delegate'), ('sockopt', 'BSC_getsockopt'),
                                                               ('sockopt', 'BSC_setsockopt'), ('imports',)]

    def _compare(self, acc, name, s, e):
        cfgs = configurations()
        base = render(name, s, e)
        interesting = False
        for cfg, sub in cfgs[1:]:
            with Host(sub):
                txt = render(name, s, e)
            acc.case(nontrivial=txt != base or 'errno' in base or 'SIG' in base or 'AF_' in base, transitions=1,
                     state=h64(cfg), outcome=h64((name, txt == base)))
            if txt != base:
                interesting = True
                acc.violation(classify(name, cfg, base, txt), {'decoder': name, 'start': [hex(x) for x in s], 'end': [hex(x) for x in e],
                                                               'config': cfg}, {'real_host': base, 'under_config': txt})
        if interesting and acc.want_sample():
            acc.sample({'decoder': name, 'end': [hex(x) for x in e], 'real_host_text': base})

    def run_shard(self, desc, acc):
        kind = desc[0]
        if kind == 'errno':
            for name in desc[1]:
                s, _ = D.in_domain(name, 'se', BASE_S, (0, 0, 0, 0), 1)
                if name == 'BSC_sigaction':
                    s = (2,) + s[1:]
                if name in ('BSC_socket', 'BSC_socketpair', 'BSC_socket_delegate'):
                    s = (0, 1) + s[2:]
                for err in list(range(0, 256)) + [9999]:
                    self._compare(acc, name, s, (err, 0x55, 0x66, 0x77))
        elif kind == 'signal':
            for sig in range(0, 41):
                self._compare(acc, 'BSC_sigaction', (sig, 0x2222, 0x3333, 0), (0, 0, 0, 0))
        elif kind == 'socket':
            for fam in range(0, 46):
                for ty in range(0, 8):
                    self._compare(acc, desc[1], (fam, ty, 0, 0x4444), (0, 3, 0, 0))
        elif kind == 'sockopt':
            opts = sorted(D.frozen_enum('bsd.SocketOptionName').values()) + [0x3333, 0]
            for lvl in (0, 1, 6, 0xffff):
                for o in opts:
                    self._compare(acc, desc[1], (3, lvl, o, 0x4444), (0, 0, 0, 0))
        else:
            for rel, mod in import_scan():
                acc.violation(f'unmodelled-host-dependent-import:{mod}@{rel}', {'kind': 'import', 'file': rel, 'module': mod}, {})
            acc.case(nontrivial=True, transitions=1, state=h64('imports'))
            acc.case(nontrivial=True, transitions=1)

    def replay(self, case):
        if case.get('kind') == 'import':
            return [(f"unmodelled-host-dependent-import:{m}@{r}", {}) for r, m in import_scan() if r == case['file'] and m == case['module']]
        s = tuple(int(x, 16) for x in case['start'])
        e = tuple(int(x, 16) for x in case['end'])
        base = render(case['decoder'], s, e)
        sub = dict(configurations())[case['config']]
        with Host(sub):
            txt = render(case['decoder'], s, e)
        return [(classify(case['decoder'], case['config'], base, txt), {'real_host': base, 'under_config': txt})] if txt != base else []


if __name__ == '__main__':
    main(C18)
