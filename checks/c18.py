"""C18 — output is a function of the dump, not of the host operating system.

Host configurations are modelled by the three interpreter tables bsd.py imports (errno, signal.Signals, socket): they are
swapped, one seam at a time and all together, for Darwin's, a FreeBSD-like and an empty table inside the worker process;
every input is rendered under every configuration and the texts must be identical. A static scan of the package's imports
keeps "own every source of host dependence" true when the code changes."""
import ast
import enum
import os
import re
import types

from mc.run import Check, main, h64, REPO
from mc import ev as E
from mc import domains as D
from mc import darwin as DW
from mc.space import chunked
from pykdebugparser.traces_parser import TracesParser
from pykdebugparser.trace_handlers import bsd

REAL = {'errno': bsd.errno, 'Signals': bsd.Signals, 'socket': bsd.socket}


def mk_errno(table):
    m = types.SimpleNamespace()
    m.errorcode = dict(table)
    for k, v in table.items():
        setattr(m, v, k)
    return m


def mk_signals(table):
    return enum.IntEnum('Signals', {v: k for k, v in table.items()})


def mk_socket(af, kinds, sol):
    m = types.SimpleNamespace()
    m.AddressFamily = enum.IntEnum('AddressFamily', {v: k for k, v in af.items()})
    m.SocketKind = enum.IntEnum('SocketKind', {v: k for k, v in kinds.items()})
    m.SOL_SOCKET = sol
    return m


FREEBSD_ERRNO = dict(DW.ERRNO)
FREEBSD_ERRNO.update({45: 'EOPNOTSUPP', 85: 'ECANCELED', 86: 'EILSEQ', 87: 'ENOATTR', 88: 'EDOOFUS', 89: 'EBADMSG', 90: 'EMULTIHOP',
                      91: 'ENOLINK', 92: 'EPROTO', 93: 'ENOTCAPABLE', 94: 'ECAPMODE', 95: 'ENOTRECOVERABLE', 96: 'EOWNERDEAD', 97: 'EINTEGRITY'})
for _k in range(98, 107):
    FREEBSD_ERRNO.pop(_k, None)
FREEBSD_SIGNALS = dict(DW.SIGNALS)
FREEBSD_SIGNALS.update({32: 'SIGTHR', 33: 'SIGLIBRT'})
FREEBSD_AF = {k: v for k, v in DW.AF.items() if k <= 26}
FREEBSD_AF.update({28: 'AF_INET6', 29: 'AF_NATM', 30: 'AF_ATM', 32: 'AF_NETGRAPH', 33: 'AF_SLOW', 36: 'AF_BLUETOOTH', 37: 'AF_IEEE80211'})

HOSTS = {
    'darwin': {'errno': mk_errno(DW.ERRNO), 'Signals': mk_signals(DW.SIGNALS), 'socket': mk_socket(DW.AF, DW.SOCK, 0xffff)},
    'freebsd': {'errno': mk_errno(FREEBSD_ERRNO), 'Signals': mk_signals(FREEBSD_SIGNALS), 'socket': mk_socket(FREEBSD_AF, DW.SOCK, 0xffff)},
    'empty': {'errno': mk_errno({}), 'Signals': mk_signals({0: 'SIGNONE'}), 'socket': mk_socket({0: 'AF_UNSPEC'}, {1: 'SOCK_STREAM'}, -1)},
}
SEAMS = ['errno', 'Signals', 'socket']


def configurations():
    out = [('real', {})]
    for host, tab in HOSTS.items():
        for seam in SEAMS:
            out.append((f'{host}:{seam}', {seam: tab[seam]}))
        out.append((f'{host}:all', dict(tab)))
    return out


class Host:
    def __init__(self, sub):
        self.sub = sub

    def __enter__(self):
        for k, v in self.sub.items():
            setattr(bsd, k, v)

    def __exit__(self, *a):
        for k, v in REAL.items():
            setattr(bsd, k, v)


def render(name, s, e):
    p = TracesParser(E.codes(), {}, {})
    try:
        out = [t for t in p.feed_generator(E.restamp([E.ev(name, 1, s), E.ev(name, 2, e)]))]
        return str(out[-1])
    except Exception as ex:
        return f'RAISED {type(ex).__name__}'


WINDOWS_SIGNALS = {2: 'SIGINT', 4: 'SIGILL', 8: 'SIGFPE', 11: 'SIGSEGV', 15: 'SIGTERM', 21: 'SIGBREAK', 22: 'SIGABRT'}
WINDOWS_ERRNO = {k: v for k, v in DW.ERRNO.items() if k <= 14 or k in (16, 17, 18, 19, 20, 21, 22, 23, 24, 25, 27, 28, 29, 30, 31, 32, 33, 34, 36, 38, 40, 41, 42)}
HOSTS['sparse'] = {'errno': mk_errno(WINDOWS_ERRNO), 'Signals': mk_signals(WINDOWS_SIGNALS),
                   'socket': mk_socket({0: 'AF_UNSPEC', 2: 'AF_INET', 23: 'AF_INET6'}, {1: 'SOCK_STREAM', 2: 'SOCK_DGRAM', 3: 'SOCK_RAW'}, 0xffff)}


def tables(cfg):
    """effective host tables under configuration cfg: errno {code: name}, signals, families, kinds, SOL_SOCKET."""
    t = {'errno': dict(REAL['errno'].errorcode), 'sig': {int(m): m.name for m in REAL['Signals']},
         'af': {int(m): m.name for m in REAL['socket'].AddressFamily}, 'kind': {int(m): m.name for m in REAL['socket'].SocketKind},
         'sol': REAL['socket'].SOL_SOCKET}
    if cfg != 'real':
        host, seam = cfg.split(':')
        sub = HOSTS[host]
        if seam in ('errno', 'all'):
            t['errno'] = dict(sub['errno'].errorcode)
        if seam in ('Signals', 'all'):
            t['sig'] = {int(m): m.name for m in sub['Signals']}
        if seam in ('socket', 'all'):
            t['af'] = {int(m): m.name for m in sub['socket'].AddressFamily}
            t['kind'] = {int(m): m.name for m in sub['socket'].SocketKind}
            t['sol'] = sub['socket'].SOL_SOCKET
    return t


ERR_CLAUSE = re.compile(r'errno: (?:[A-Za-z_][A-Za-z_0-9]*\(\d+\)|\d+)')
SITE = {'BSC_pipe': 'handle_pipe', 'BSC_sigaction': 'handle_sigaction', 'BSC_socket': 'handle_socket',
        'BSC_socketpair': 'handle_socketpair', 'BSC_socket_delegate': 'handle_socket_delegate',
        'BSC_getsockopt': 'sockopt_format_level_and_option', 'BSC_setsockopt': 'sockopt_format_level_and_option'}


def predict_tokens(name, s, e, t):
    """what the K2 mechanism (name looked up BY VALUE in the host's table) shows under tables t:
    returns ('RAISED', None) or (errno clause or None, {token position: text})."""
    err = e[0]
    clause = None
    if err:
        clause = f"errno: {t['errno'][err]}({err})" if err in t['errno'] else f'errno: {err}'
    toks = {}
    if name == 'BSC_sigaction':
        if s[0] not in t['sig']:
            return 'RAISED', None
        toks[0] = t['sig'][s[0]]
    elif name in ('BSC_socket', 'BSC_socketpair', 'BSC_socket_delegate'):
        if s[0] not in t['af'] or s[1] not in t['kind']:
            return 'RAISED', None
        toks[0], toks[1] = t['af'][s[0]], t['kind'][s[1]]
    elif name in ('BSC_getsockopt', 'BSC_setsockopt'):
        if s[1] == t['sol']:
            names = {v: k for k, v in D.frozen_enum('bsd.SocketOptionName').items()}
            if s[2] not in names:
                return 'RAISED', None
            toks[1], toks[2] = 'SOL_SOCKET', names[s[2]]
        else:
            toks[1], toks[2] = str(s[1]), str(s[2])
    return clause, toks


def explained_by_table_lookup(name, s, e, cfg, text):
    """True iff `text` is exactly what looking the values up in cfg's tables produces, given the rest of the rendering."""
    from mc.callstyle import split_call
    clause, toks = predict_tokens(name, s, e, tables(cfg))
    if clause == 'RAISED':
        return text == 'RAISED ValueError', None
    if text.startswith('RAISED'):
        return False, None
    sc = split_call(text)
    if sc is None:
        return False, None
    fn, tokens, rest = sc
    for pos, want in toks.items():
        if pos >= len(tokens) or tokens[pos] != want:
            return False, None
        tokens[pos] = '{T%d}' % pos
    found = ERR_CLAUSE.findall(rest)
    if clause is None:
        if found:
            return False, None
    else:
        if found != [clause]:
            return False, None
        rest = rest.replace(clause, '{ERR}')
    return True, (fn, tuple(tokens), rest)


def classify(name, cfg, a, b, s, e):
    """signature of a difference between text a (real host) and b (configuration cfg). A difference is the known mechanism
    (K2) only if BOTH texts are exactly what a by-value lookup in the respective host table produces and they agree on
    everything else; the signature then names the seam and the call site. Anything else is a different violation."""
    oka, tpla = explained_by_table_lookup(name, s, e, 'real', a)
    okb, tplb = explained_by_table_lookup(name, s, e, cfg, b)
    if oka and okb and (tpla is None or tplb is None or tpla == tplb):
        ta, tb = tables('real'), tables(cfg)
        ca, toka = predict_tokens(name, s, e, ta)
        cb, tokb = predict_tokens(name, s, e, tb)
        if toka != tokb or 'RAISED' in (ca, cb):
            seam = 'Signals' if name == 'BSC_sigaction' else 'socket'
            return f'host-table:{seam}@{SITE[name]}'
        return 'host-table:errno@' + ('handle_pipe' if name == 'BSC_pipe' else 'serialize_result')
    return f'host-dependent-output:{cfg.split(":")[1]}@{name}'


HOST_DEPENDENT_MODULES = {'errno', 'signal', 'socket', 'os', 'sys', 'platform', 'locale', 'time', 'getpass', 'pwd', 'grp', 'resource',
                          'termios', 'fcntl', 'select', 'tempfile', 'shutil', 'subprocess', 'multiprocessing', 'threading', 'random',
                          'secrets', 'uuid1', 'ssl', 'mmap', 'sysconfig', 'site', 'posix', 'stat', 'tty', 'curses', 'readline', 'selectors',
                          'asyncio', 'getopt', 'gettext', 'calendar', 'zoneinfo', 'posixpath', 'ntpath', 'glob', 'fnmatch', 'io_uring',
                          'pathlib'}          # pathlib: PurePath / Path take a text apart by the HOST's path flavour
# pathlib in trace_codes.py locates and opens code-table FILES of the host (modelled by the host-files / directory-order children); a use on
# text that comes from a dump is not
MODELLED = {('trace_handlers/bsd.py', 'errno'), ('trace_handlers/bsd.py', 'signal'), ('trace_handlers/bsd.py', 'socket'), ('trace_codes.py', 'pathlib')}


def import_scan():
    found = []
    root = os.path.join(REPO, 'pykdebugparser')
    for dp, dn, fn in os.walk(root):
        for f in fn:
            if not f.endswith('.py'):
                continue
            path = os.path.join(dp, f)
            rel = os.path.relpath(path, root)
            tree = ast.parse(open(path).read())
            for node in ast.walk(tree):
                mods = []
                if isinstance(node, ast.Import):
                    mods = [a.name for a in node.names]
                elif isinstance(node, ast.ImportFrom) and node.module and node.level == 0:
                    mods = [node.module]
                elif isinstance(node, ast.Call) and getattr(node.func, 'id', getattr(node.func, 'attr', '')) in ('__import__', 'import_module'):
                    mods = [a.value for a in node.args[:1] if isinstance(a, ast.Constant) and isinstance(a.value, str)]
                for m in mods:
                    top = m.split('.')[0]
                    if top in HOST_DEPENDENT_MODULES and (rel, top) not in MODELLED:
                        if rel == '__main__.py':
                            continue
                        found.append((rel, top))
    return sorted(set(found))


M64 = (1 << 64) - 1
BASE_S = (0x1111, 0x2222, 0x3333, 0x4444)


def judge_host_timezone():
    """the host's time zone (TZ) is part of the operating system the tool runs on: log, trace and event lines of one dump, with the
    timezone option left unset and set explicitly, are the same under every TZ."""
    import io
    import os
    import time
    from datetime import timezone, timedelta
    from mc import build as B
    from pykdebugparser.pykdebugparser import PyKdebugParser
    logs = B.v3_block(B.TAG_LOG_EVENTS, B.bplist({'Events': [
        {'cm': 1, 't': 'logEvent', 's': i, 'tid': 1, 'ns': 5, 'mct': 6 + i, 'b': b'B' * 16, 'piu': b'P' * 16,
         'ud': {'sec': sec, 'usec': 7}, 'utz': {'mw': 0, 'dt': 0}, 'p': 2, 'pid': 10}
        for i, sec in enumerate((1600000000, 1600000000 + 11 * 3600 + 1800, 86399))]}))
    sidx = B.v3_block(B.TAG_LOG_STRINGS, B.bplist({'StringIndex': {'hello': 1, 'proc': 2}}))
    recs = [B.rec(1000, (0, 0, 0, 0), 1, E.n2i('BSC_getpid') | 1), B.rec(2000, (0, 5, 0, 0), 1, E.n2i('BSC_getpid') | 2)]
    blob = B.v3([(1, 10, 'proc')], [recs], [sidx, logs])

    def lines(explicit):
        out = []
        for api in ('formatted_logs', 'formatted_traces', 'formatted_kevents'):
            f = PyKdebugParser()
            f.color = False
            if explicit:
                f.numer, f.denom, f.mach_absolute_time, f.usecs_since_epoch = 125, 3, 500, 1600000000 * 10 ** 6
                f.timezone = timezone(timedelta(hours=2))
            out.append(list(getattr(f, api)(io.BytesIO(blob))) if api == 'formatted_logs' else list(getattr(f, api)(io.BytesIO(blob), dict(E.codes()))))
        return out
    saved = os.environ.get('TZ')
    seen = {}
    try:
        for tz in ('UTC', 'EST5EDT', 'NZST-12NZDT', 'IST-5:30'):
            os.environ['TZ'] = tz
            time.tzset()
            for explicit in (False, True):
                seen[(tz, explicit)] = lines(explicit)
    except Exception as ex:
        return [('formatting-raised-under-host-timezone:' + type(ex).__name__, {'error': repr(ex)[:200]})]
    finally:
        if saved is None:
            os.environ.pop('TZ', None)
        else:
            os.environ['TZ'] = saved
        time.tzset()
    bad = []
    for (tz, explicit), got in seen.items():
        ref = seen[('UTC', explicit)]
        if got != ref:
            k = next(i for i in range(3) if got[i] != ref[i])
            bad.append(('host-dependent-output:timezone-of-the-host@' + ('formatted_logs', 'formatted_traces', 'formatted_kevents')[k],
                        {'TZ': tz, 'timezone_option_set': explicit, 'line': got[k][:1], 'under_UTC': ref[k][:1]}))
            break
    return bad


LOCALE_CHILD = r'''
import io, json, os, sys, tempfile
from mc import build as B
from mc import ev as E
from pykdebugparser.pykdebugparser import PyKdebugParser
from pykdebugparser.trace_codes import from_trace_codes_file, default_trace_codes
if os.environ.get('VERIF_HOST_FILES'):
    # a host on which EVERY absolute path outside the interpreter, the library, the harness and the temp directory exists and is a
    # readable regular file holding a small code table (a Mac has /usr/share/misc/trace.codes; another host has other files)
    import builtins, pathlib, stat as _stat
    ALLOWED = tuple(os.path.realpath(x) for x in (sys.prefix, sys.base_prefix, os.environ.get('VERIF_REPO', '/repo'), '/verif', tempfile.gettempdir(), '/proc', '/dev'))
    def foreign(path_):
        try:
            q = os.fspath(path_)
        except TypeError:
            return False
        if isinstance(q, bytes):
            q = q.decode('utf-8', 'replace')
        return os.path.isabs(q) and not os.path.realpath(q).startswith(ALLOWED) and not _real_exists(q)
    _real_stat, _real_open = os.stat, builtins.open
    def _real_exists(q):
        try:
            _real_stat(q)
            return True
        except (OSError, ValueError):
            return False
    _file_stat = _real_stat(__import__('mc.ev', fromlist=['x']).__file__)
    FAKE = '0x40c0050 BSC_name_from_a_host_file\n0x40c0014 BSC_open\n0x3010090 VFS_LOOKUP\n0x1 HOST\n'
    def fake_stat(path_, *a, **k):
        return _file_stat if foreign(path_) else _real_stat(path_, *a, **k)
    def fake_open(file, mode='r', *a, **k):
        if not isinstance(file, int) and foreign(file):
            return io.BytesIO(FAKE.encode()) if 'b' in mode else io.StringIO(FAKE)
        return _real_open(file, mode, *a, **k)
    os.stat = fake_stat
    os.path.exists = lambda q: True if foreign(q) else _real_exists(q)
    os.path.isfile = lambda q: True if foreign(q) else os.path.exists(q) and _stat.S_ISREG(_real_stat(q).st_mode)
    os.access = lambda q, m, **k: True
    builtins.open = fake_open
    io.open = fake_open
    pathlib.Path.exists = lambda self, **k: os.path.exists(str(self))
    pathlib.Path.is_file = lambda self, **k: os.path.isfile(str(self))
    pathlib.Path.open = lambda self, mode='r', *a, **k: fake_open(str(self), mode, *a, **k)
    pathlib.Path.read_text = lambda self, *a, **k: fake_open(str(self), 'r').read()
    # the model is in force: a file no host of this sandbox has is there, readable, and parses as a code table
    assert os.path.isfile('/usr/share/misc/trace.codes') and pathlib.Path('/usr/share/misc/trace.codes').is_file()
    assert from_trace_codes_file('/usr/share/misc/trace.codes').get(0x40c0050) == 'BSC_name_from_a_host_file'
    assert not foreign(os.path.join(os.path.dirname(from_trace_codes_file.__code__.co_filename), 'trace.codes'))
out = {}
path = '/caf\u00e9/\u20ac/na\u00efve.txt'
recs = [B.rec(1, (1, 0, 0, 0), 1, E.n2i('BSC_open') | 1)]
for i, (d, q) in enumerate(B.lookup_chunks(0x77, path)):
    recs.append(B.rec(2 + i, tid=1, debugid=E.n2i('VFS_LOOKUP') | q, data=d))
recs.append(B.rec(9, (0, 3, 0, 0), 1, E.n2i('BSC_open') | 2))
recs.append(B.rec(10, tid=1, debugid=E.n2i('TRACE_STRING_THREADNAME'), data='fil\u00e9'.encode().ljust(32, b'\0')))
recs.append(B.rec(11, tid=1, debugid=E.n2i('TRACE_STRING_GLOBAL') | 3, data=B.global_string_chunks(0, 500, 'lib\u00e9')[0][0]))
blob = B.v2([(1, 10, 'proc\u00e9')], 0, recs)
for api in ('formatted_traces', 'formatted_kevents'):
    f = PyKdebugParser()
    f.color = False
    try:
        out[api] = list(getattr(f, api)(io.BytesIO(blob), dict(E.codes())))
    except Exception as ex:
        out[api] = 'RAISED ' + type(ex).__name__
d = tempfile.mkdtemp(prefix='verif_loc_')
p = os.path.join(d, 't.codes')
with open(p, 'wb') as fh:
    fh.write('0x1 NAME_\u00e9\n0x2 PLAIN\n'.encode('utf-8'))
try:
    out['file'] = sorted(from_trace_codes_file(p).items())
except Exception as ex:
    out['file'] = 'RAISED ' + type(ex).__name__
os.unlink(p); os.rmdir(d)
try:
    out['bundled'] = len(default_trace_codes())
    out['bundled-table'] = sorted(default_trace_codes().items())[::97]
    f = PyKdebugParser()
    f.color = False
    out['listing-with-the-bundled-table'] = list(f.formatted_traces(io.BytesIO(blob))) + list(PyKdebugParser().formatted_kevents(io.BytesIO(blob)))
except Exception as ex:
    out['bundled'] = 'RAISED ' + type(ex).__name__
print(json.dumps(out))
'''


DATAMODEL_CHILD = r'''
import ctypes, json, sys
if sys.argv[1] == 'big-endian':
    # a big-endian host (s390x, POWER): every struct format WITHOUT an explicit byte order ('@', '=' or none) reads big-endian
    import struct as _st
    def _fix(fmt):
        if isinstance(fmt, bytes):
            fmt = fmt.decode()
        return fmt if fmt[:1] in '<>!' else '>' + fmt.lstrip('@=')
    _o = {n: getattr(_st, n) for n in ('pack', 'unpack', 'unpack_from', 'iter_unpack', 'calcsize', 'pack_into', 'Struct')}
    _st.pack = lambda fmt, *a: _o['pack'](_fix(fmt), *a)
    _st.unpack = lambda fmt, b: _o['unpack'](_fix(fmt), b)
    _st.unpack_from = lambda fmt, b, offset=0: _o['unpack_from'](_fix(fmt), b, offset)
    _st.iter_unpack = lambda fmt, b: _o['iter_unpack'](_fix(fmt), b)
    _st.calcsize = lambda fmt: _o['calcsize'](_fix(fmt))
    _st.pack_into = lambda fmt, buf, off, *a: _o['pack_into'](_fix(fmt), buf, off, *a)
    _st.Struct = lambda fmt: _o['Struct'](_fix(fmt))
    sys.byteorder = 'big'
if sys.argv[1] == 'llp64':
    # an LLP64 host (Windows): C long / unsigned long are 32 bits wide - in place BEFORE the library is imported
    ctypes.c_long, ctypes.c_ulong = ctypes.c_int32, ctypes.c_uint32
from mc import ev as E
from mc import domains as D
from mc import build as B
from pykdebugparser.kevent import from_kd_buf
from pykdebugparser.traces_parser import TracesParser
names = json.loads(sys.stdin.read())
BASE_S = (0x1111, 0x2222, 0x3333, 0x4444)
wide = (1 << 31, (1 << 32) + 5, 1 << 63, (1 << 64) - 1, 0xff, 0x7)      # the last two: several low flag bits at once
out = {}
for name in names:
    base, _ = D.in_domain(name, 'se', BASE_S, (0, 0, 0, 0), 1)
    en = D.enums(name, 'se')
    cases = []
    for k in range(4):
        if ('s%d' % k) in en or (name == 'BSC_ioctl' and k == 1):
            continue
        for w in wide:
            sw = list(base)
            sw[k] = w
            cases.append((tuple(sw), (0, 0x55, 0x66, 0x77)))
    for w in wide:
        cases.append((tuple(base), (0, w, 0x66, 0x77)))
    res = []
    for sw, ew in cases:
        p = TracesParser(E.codes(), {}, {})
        try:
            # the records go through the library's own record decoder (bytes in, events out)
            evs = [from_kd_buf(B.rec(1, sw, 1, E.n2i(name) | 1)), from_kd_buf(B.rec(2, ew, 1, E.n2i(name) | 2))]
            t = [t for t in p.feed_generator(evs)]
            res.append([list(sw), list(ew), str(t[-1])])
        except Exception as ex:
            res.append([list(sw), list(ew), 'RAISED ' + type(ex).__name__])
    out[name] = res
print(json.dumps(out))
'''


def judge_c_data_model(names):
    """the C data model of the host: two child interpreters render every BSD decoder with wide words in each numeric START position
    and in the END return position - one as it is (LP64), one with ctypes.c_long / c_ulong replaced by the 32-bit types before the
    library is imported (LLP64, Windows): the texts are the same."""
    import json
    import subprocess
    import sys
    import os
    got = {}
    # 'lp64@seedN': the same host with another string-hash seed (the interpreter's per-process randomisation)
    for model in ('lp64', 'llp64', 'big-endian', 'lp64@seed1', 'lp64@seed4242'):
        env = dict(os.environ)
        if '@seed' in model:
            env['PYTHONHASHSEED'] = model.split('@seed')[1]
        r = subprocess.run([sys.executable, '-c', DATAMODEL_CHILD, model.split('@')[0]], input=json.dumps(list(names)), capture_output=True, text=True, timeout=600, env=env)
        if r.returncode != 0:
            return [('harness:datamodel-child-failed', {'decoder': names[0]}, {'model': model, 'stderr': r.stderr[-300:]})], 0
        got[model] = json.loads(r.stdout.strip().splitlines()[-1])
    bad = []
    n = 0
    for name in names:
        for other, what in (('llp64', 'c-data-model'), ('big-endian', 'byte-order-of-the-host'), ('lp64@seed1', 'hash-seed-of-the-process'), ('lp64@seed4242', 'hash-seed-of-the-process')):
            hit = False
            for a, b in zip(got['lp64'][name], got[other][name]):
                n += 1
                if a != b:
                    bad.append((f'host-dependent-output:{what}@{name}', {'decoder': name, 'start': [hex(x) for x in a[0]], 'end': [hex(x) for x in a[1]]},
                                {'this_process': a[2], 'other_process': b[2], 'other': other}))
                    hit = True
                    break
            if hit:
                break
    return bad, n


ENV_CHILD = r"""
import io, json, os, sys
from mc import build as B
from mc import ev as E
from pykdebugparser.pykdebugparser import PyKdebugParser
logs = B.v3_block(B.TAG_LOG_EVENTS, B.bplist({'Events': [
    {'cm': 1, 't': 'logEvent', 's': 1, 'tid': 1, 'ns': 5, 'mct': 6, 'b': b'B' * 16, 'piu': b'P' * 16,
     'ud': {'sec': 1600000000, 'usec': 7}, 'utz': {'mw': 0, 'dt': 0}, 'p': 2, 'pid': 10},
    # a record that carries image paths (a backslash and a drive-like prefix in them) but no process / sender name
    {'cm': 1, 't': 'logEvent', 's': 2, 'tid': 9, 'ns': 5, 'mct': 7, 'b': b'B' * 16, 'piu': b'P' * 16,
     'ud': {'sec': 1600000000, 'usec': 8}, 'utz': {'mw': 0, 'dt': 0}, 'pip': 3, 'sip': 4, 'pid': 45}]}))
sidx = B.v3_block(B.TAG_LOG_STRINGS, B.bplist({'StringIndex': {'hello': 1, 'proc': 2, '/private/var/Notes\\Tasks.app/Notes\\Tasks': 3, 'C:/usr/lib\\x.dylib': 4}}))
recs = [B.rec(1000, (0, 0, 0, 0), 1, E.n2i('BSC_getpid') | 1), B.rec(2000, (0, 5, 0, 0), 1, E.n2i('BSC_getpid') | 2),
        B.rec(3000, (0x8, 7, 0, 0), 1, E.n2i('PERF_Event') | 1), B.rec(3001, (1, 1, 0, 0), 1, E.n2i('PERF_STK_UHdr')),
        B.rec(3002, (0x1010, 0, 0, 0), 1, E.n2i('PERF_STK_UData')), B.rec(3003, (0, 0, 0, 0), 1, E.n2i('PERF_Event') | 2)]
blob = B.v3([(1, 10, 'proc')], [recs], [sidx, logs])
out = {}
for color in (True, False):
    for api in ('formatted_logs', 'formatted_traces', 'formatted_kevents', 'formatted_callstacks'):
        f = PyKdebugParser()
        f.color = color
        try:
            out[api + (':colour' if color else ':plain')] = list(getattr(f, api)(io.BytesIO(blob))) if api == 'formatted_logs' else \
                list(getattr(f, api)(io.BytesIO(blob), dict(E.codes())))
        except Exception as ex:
            out[api + (':colour' if color else ':plain')] = 'RAISED ' + type(ex).__name__
out['stdout-is-a-terminal'] = os.isatty(1)
os.write(int(os.environ['VERIF_OUT_FD']), json.dumps(out).encode())
"""


def judge_host_environment():
    """the same dump and the same options (colour on / off) in child interpreters whose ENVIRONMENT differs: standard output a pipe or
    a terminal, TERM, NO_COLOR, FORCE_COLOR, ANSI_COLORS_DISABLED, CLICOLOR, COLUMNS. The lines are the same."""
    import json
    import os
    import pty
    import subprocess
    import sys
    envs = {'piped': {}, 'terminal': {'TERM': 'xterm-256color'}, 'terminal-TERM=dumb': {'TERM': 'dumb'}, 'piped-NO_COLOR': {'NO_COLOR': '1'},
            'piped-FORCE_COLOR': {'FORCE_COLOR': '1'}, 'piped-ANSI_COLORS_DISABLED': {'ANSI_COLORS_DISABLED': '1'},
            'piped-CLICOLOR_FORCE+COLUMNS=20': {'CLICOLOR_FORCE': '1', 'CLICOLOR': '0', 'COLUMNS': '20', 'LINES': '5'},
            # the interpreter the tool is installed under treats bytes / str mix-ups and warnings as errors (python -bb -W error)
            'piped-interpreter-flags--bb--W-error': {'VERIF_INTERPRETER_FLAGS': '-bb -W error'}}
    seen = {}
    for label, extra in envs.items():
        env = {k: v for k, v in os.environ.items() if k not in ('TERM', 'NO_COLOR', 'FORCE_COLOR', 'ANSI_COLORS_DISABLED', 'CLICOLOR', 'CLICOLOR_FORCE', 'COLUMNS', 'LINES', 'COLORTERM', 'VERIF_PATH_FLAVOUR')}
        env.update(extra)
        r, w = os.pipe()
        env['VERIF_OUT_FD'] = str(w)
        interp = [sys.executable] + env.pop('VERIF_INTERPRETER_FLAGS', '').split()
        master = slave = None
        try:
            if label.startswith('terminal'):
                master, slave = pty.openpty()
                proc = subprocess.run(interp + ['-c', ENV_CHILD], stdin=subprocess.DEVNULL, stdout=slave, stderr=subprocess.PIPE, env=env, pass_fds=(w,), timeout=120)
            else:
                proc = subprocess.run(interp + ['-c', ENV_CHILD], stdin=subprocess.DEVNULL, stdout=subprocess.PIPE, stderr=subprocess.PIPE, env=env, pass_fds=(w,), timeout=120)
            os.close(w)
            w = None
            data = b''
            while True:
                chunk = os.read(r, 1 << 16)
                if not chunk:
                    break
                data += chunk
        finally:
            for fd in (r, w, master, slave):
                if fd is not None:
                    try:
                        os.close(fd)
                    except OSError:
                        pass
        if proc.returncode != 0:
            return [('harness:environment-child-failed', {'label': label, 'stderr': proc.stderr.decode('utf-8', 'replace')[-300:]})]
        seen[label] = json.loads(data.decode())
        if seen[label]['stdout-is-a-terminal'] != label.startswith('terminal'):
            return [('harness:environment-child-terminal-model-not-in-force', {'label': label})]
    ref = seen['piped']
    bad = []
    done = set()
    for label, got in seen.items():
        for k in ref:
            if k != 'stdout-is-a-terminal' and got[k] != ref[k] and k not in done:
                done.add(k)
                bad.append(('host-dependent-output:environment-of-the-process@' + k, {'environment': label, 'got': repr(got[k])[:200], 'piped_without_variables': repr(ref[k])[:200]}))
    return bad


def judge_directory_order():
    """the order in which the host's file system enumerates a directory (by name, by hash, newest first) is the host's: if the table
    loader accepts a directory of code lists at all (the pinned tree refuses one), what it loads does not depend on that order."""
    import glob as _glob
    import os
    import pathlib
    import shutil
    import tempfile
    from pykdebugparser.trace_codes import from_trace_codes_file
    d = tempfile.mkdtemp(prefix='verif_c18_dir_')
    real = (os.listdir, os.scandir, pathlib.Path.iterdir, _glob.glob)
    try:
        for name, text in (('a.codes', '0x40c0018 BSC_close\n0x1 ONLY_A\n'), ('b.codes', '0x40c0018 BSC_sys_close\n0x2 ONLY_B\n'), ('c.codes', '0x40c0018 BSC_shut\n')):
            with open(os.path.join(d, name), 'w') as f:
                f.write(text)
        seen = {}
        for order in ('as-the-host-gives-it', 'sorted', 'reverse-sorted'):
            if order != 'as-the-host-gives-it':
                rev = order == 'reverse-sorted'
                os.listdir = lambda path='.', _r=rev: sorted(real[0](path), reverse=_r)

                class _Scan(list):
                    def __enter__(self):
                        return self

                    def __exit__(self, *a):
                        return False

                    def close(self):
                        pass
                os.scandir = lambda path='.', _r=rev: _Scan(sorted(real[1](path), key=lambda e: e.name, reverse=_r))
                pathlib.Path.iterdir = lambda self, _r=rev: iter(sorted(real[2](self), reverse=_r))
                _glob.glob = lambda *a, _r=rev, **k: sorted(real[3](*a, **k), reverse=_r)
            try:
                seen[order] = sorted(dict(from_trace_codes_file(d)).items())
            except Exception as ex:
                seen[order] = 'REFUSED ' + type(ex).__name__
            try:
                seen[order + ':path-object'] = sorted(dict(from_trace_codes_file(pathlib.Path(d))).items())
            except Exception as ex:
                seen[order + ':path-object'] = 'REFUSED ' + type(ex).__name__
    finally:
        os.listdir, os.scandir, pathlib.Path.iterdir, _glob.glob = real
        shutil.rmtree(d, ignore_errors=True)
    for suffix in ('', ':path-object'):
        vals = [seen[o + suffix] for o in ('as-the-host-gives-it', 'sorted', 'reverse-sorted')]
        if any(v != vals[0] for v in vals):
            return [('host-dependent-output:directory-enumeration-order-of-the-host@from_trace_codes_file', {'results': {o: repr(seen[o + suffix])[:160] for o in ('sorted', 'reverse-sorted')}})]
    return []


def judge_host_locale():
    """the same dump (non-ASCII path, thread name, global string, process name) and the same UTF-8 code-table file, in child
    interpreters started under different host locale settings: the output is the same."""
    import json
    import os
    import subprocess
    import sys
    envs = {'utf8-locale': {'LC_ALL': 'C.UTF-8'}, 'c-locale-no-coercion': {'LC_ALL': 'C', 'PYTHONUTF8': '0', 'PYTHONCOERCECLOCALE': '0'},
            'posix-utf8-mode': {'LC_ALL': 'POSIX', 'PYTHONUTF8': '1'},
            'utf8-locale+every-other-absolute-path-is-a-readable-file': {'LC_ALL': 'C.UTF-8', 'VERIF_HOST_FILES': '1'}}
    seen = {}
    for label, extra in envs.items():
        env = {k: v for k, v in os.environ.items() if k not in ('LC_ALL', 'LANG', 'LC_CTYPE', 'PYTHONUTF8', 'PYTHONCOERCECLOCALE', 'PYTHONIOENCODING')}
        env.update(extra)
        r = subprocess.run([sys.executable, '-c', LOCALE_CHILD], capture_output=True, text=True, env=env, timeout=120)
        if r.returncode != 0:
            return [('harness:locale-child-failed', {'label': label, 'stderr': r.stderr[-300:]})]
        seen[label] = json.loads(r.stdout.strip().splitlines()[-1])
    ref = seen['utf8-locale']
    for label, got in seen.items():
        for k in ref:
            if got[k] != ref[k]:
                return [('host-dependent-output:' + ('files-of-the-host' if 'path' in label else 'locale-of-the-host') + '@' + k, {'locale': label, 'got': repr(got[k])[:200], 'under_utf8_locale': repr(ref[k])[:200]})]
    return []


class C18(Check):
    pid = 'C18'
    level = 'model_checking'
    rule = ('host configurations = {real host} + {Darwin, FreeBSD-like, empty, sparse (Windows-like)} x {errno only, Signals only, socket only, all three} '
            '(17 configurations), installed by rebinding the names in pykdebugparser.trace_handlers.bsd inside the worker and '
            'restored after each case. Inputs: every BSD decoder x END error word 0..255 and 9999; every BSD decoder x every numeric START position x value 0..64 (a word that a new code path looks up in a host table shows here); sigaction x signal 0..40; '
            'socket/socketpair/socket_delegate x family 0..45 x type 0..7; get/setsockopt x level {0,1,6,0xffff} x every declared '
            'SO_ option + 2 undeclared. Oracle: the rendered text (or the exception type) is identical under every configuration. '
            'Plus the log / trace / event lines of one version-3 dump (log records near midnight) with the timezone option unset and set, under the host time zones UTC, EST5EDT, NZST-12NZDT, IST-5:30: identical. Plus every BSD decoder with words 2^31, 2^32+5, 2^63, 2^64-1 in each numeric START position and in the END return word, in two child interpreters, one of which has ctypes.c_long / c_ulong replaced by the 32-bit types before the library is imported (an LLP64 host), one whose struct module reads formats without an explicit byte order as big-endian (a big-endian host), two more under other string-hash seeds (PYTHONHASHSEED): identical. Plus the four listings of one version-3 dump with colour on and off in child interpreters whose environment differs (standard output a pipe / a pseudo-terminal, TERM dumb, NO_COLOR, FORCE_COLOR, ANSI_COLORS_DISABLED, CLICOLOR_FORCE + COLUMNS): identical. Plus a child interpreter in which every absolute path outside the interpreter / library / harness / temp directory exists and is a readable code table (files of the host). Plus child interpreters started under three host locale settings (UTF-8 locale; C locale without coercion, i.e. ASCII file-system and default text encoding; POSIX with UTF-8 mode) formatting one dump with non-ASCII path / thread name / global string / process name and loading one UTF-8 code-table file: identical. Plus a static scan of every import in pykdebugparser/** against the list of host-dependent stdlib modules: anything '
            'beyond the three modelled seams is a violation. states = configurations; transitions = renders; non-trivial = input '
            'whose rendering shows a host-table name under at least one configuration.')
    assumptions = ('the host is modelled by the interpreter tables the code imports today plus the import scan; a dependency through '
                   'another channel (environment variable read in a C extension) is not modelled',
                   'signature of a difference = (seam, call site) only when both texts are exactly what a by-value lookup in the respective host '
                   'table produces (predicted token by token) and agree on everything else; any other difference gets its own signature')

    def bounds(self):
        return {'configurations': [c for c, _ in configurations()]}

    def shards(self):
        names = [n for n in D.decoder_names() if n.startswith('BSC_')]
        return [('errno', ch) for ch in chunked(names, 32)] + [('small', ch) for ch in chunked(names, 32)] + [('signal',), ('socket', 'BSC_socket'), ('socket', 'BSC_socketpair'),
                                                               ('socket', 'BSC_socket_delegate'), ('sockopt', 'BSC_getsockopt'),
                                                               ('sockopt', 'BSC_setsockopt'), ('imports',), ('tz',), ('locale',), ('environment',)] + [('datamodel', ch) for ch in chunked(names, 48)]

    def _compare(self, acc, name, s, e):
        cfgs = configurations()
        base = render(name, s, e)
        interesting = False
        for cfg, sub in cfgs[1:]:
            with Host(sub):
                txt = render(name, s, e)
            acc.case(nontrivial=txt != base or 'errno' in base or 'SIG' in base or 'AF_' in base, transitions=1,
                     state=h64(cfg), outcome=h64((name, txt == base)))
            if txt != base:
                interesting = True
                acc.violation(classify(name, cfg, base, txt, s, e), {'decoder': name, 'start': [hex(x) for x in s], 'end': [hex(x) for x in e],
                                                               'config': cfg}, {'real_host': base, 'under_config': txt})
        if interesting and acc.want_sample():
            acc.sample({'decoder': name, 'end': [hex(x) for x in e], 'real_host_text': base})

    def run_shard(self, desc, acc):
        kind = desc[0]
        if kind == 'errno':
            for name in desc[1]:
                s, _ = D.in_domain(name, 'se', BASE_S, (0, 0, 0, 0), 1)
                if name == 'BSC_sigaction':
                    s = (2,) + s[1:]
                if name in ('BSC_socket', 'BSC_socketpair', 'BSC_socket_delegate'):
                    s = (0, 1) + s[2:]
                for err in list(range(0, 256)) + [9999]:
                    self._compare(acc, name, s, (err, 0x55, 0x66, 0x77))
        elif kind == 'small':
            # any START word of any decoder may be run through a host table: every position x every small value
            skip = {'BSC_sigaction': {0}, 'BSC_socket': {0, 1}, 'BSC_socketpair': {0, 1}, 'BSC_socket_delegate': {0, 1},
                    'BSC_getsockopt': {1, 2}, 'BSC_setsockopt': {1, 2}}
            for name in desc[1]:
                base, _ = D.in_domain(name, 'se', BASE_S, (0, 0, 0, 0), 1)
                en = D.enums(name, 'se')
                for k in range(4):
                    if k in skip.get(name, ()) or f's{k}' in en or (name == 'BSC_ioctl' and k == 1):
                        continue     # positions already enumerated by their own sub-space / enum-valued (domain fixed)
                    for v in range(0, 65):
                        s = list(base)
                        s[k] = v
                        if name in ('BSC_socket', 'BSC_socketpair', 'BSC_socket_delegate'):
                            s[0], s[1] = 2, 1
                        if name == 'BSC_sigaction':
                            s[0] = 2
                        if name in ('BSC_getsockopt', 'BSC_setsockopt'):
                            s[1] = 6
                        self._compare(acc, name, tuple(s), (0, 0x55, 0x66, 0x77))
        elif kind == 'signal':
            for sig in range(0, 41):
                self._compare(acc, 'BSC_sigaction', (sig, 0x2222, 0x3333, 0), (0, 0, 0, 0))
        elif kind == 'socket':
            for fam in range(0, 46):
                for ty in range(0, 8):
                    self._compare(acc, desc[1], (fam, ty, 0, 0x4444), (0, 3, 0, 0))
        elif kind == 'sockopt':
            opts = sorted(D.frozen_enum('bsd.SocketOptionName').values()) + [0x3333, 0]
            for lvl in (0, 1, 6, 0xffff):
                for o in opts:
                    self._compare(acc, desc[1], (3, lvl, o, 0x4444), (0, 0, 0, 0))
        elif kind == 'datamodel':
            bad, n = judge_c_data_model(desc[1])
            for sig, case, detail in bad:
                acc.violation(sig, dict(case, kind='datamodel'), detail)
            acc.case(nontrivial=True, transitions=2 * n, state=h64('datamodel'))
        elif kind == 'locale':
            for sig, detail in judge_host_locale():
                acc.violation(sig, {'kind': 'locale'}, detail)
            acc.case(nontrivial=True, transitions=12, state=h64('locale'))
        elif kind == 'environment':
            for sig, detail in judge_directory_order():
                acc.violation(sig, {'kind': 'directory-order'}, detail)
            acc.case(nontrivial=True, transitions=6, state=h64('directory-order'))
            for sig, detail in judge_host_environment():
                acc.violation(sig, {'kind': 'environment'}, detail)
            acc.case(nontrivial=True, transitions=56, state=h64('environment'))
        elif kind == 'tz':
            for sig, detail in judge_host_timezone():
                acc.violation(sig, {'kind': 'tz'}, detail)
            acc.case(nontrivial=True, transitions=36, state=h64('tz'))
        else:
            for rel, mod in import_scan():
                acc.violation(f'unmodelled-host-dependent-import:{mod}@{rel}', {'kind': 'import', 'file': rel, 'module': mod}, {})
            acc.case(nontrivial=True, transitions=1, state=h64('imports'))
            acc.case(nontrivial=True, transitions=1)

    def replay(self, case):
        if case.get('kind') == 'tz':
            return judge_host_timezone()
        if case.get('kind') == 'locale':
            return judge_host_locale()
        if case.get('kind') == 'directory-order':
            return judge_directory_order()
        if case.get('kind') == 'environment':
            return judge_host_environment()
        if case.get('kind') == 'datamodel':
            return [(sig, detail) for sig, c, detail in judge_c_data_model([case['decoder']])[0]]
        if case.get('kind') == 'import':
            return [(f"unmodelled-host-dependent-import:{m}@{r}", {}) for r, m in import_scan() if r == case['file'] and m == case['module']]
        s = tuple(int(x, 16) for x in case['start'])
        e = tuple(int(x, 16) for x in case['end'])
        base = render(case['decoder'], s, e)
        sub = dict(configurations())[case['config']]
        with Host(sub):
            txt = render(case['decoder'], s, e)
        return [(classify(case['decoder'], case['config'], base, txt, s, e), {'real_host': base, 'under_config': txt})] if txt != base else []


if __name__ == '__main__':
    main(C18)
