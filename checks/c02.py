"""C02 — a version-2 dump yields exactly its records, in order, and its thread map.

Dumps are produced by the independent v2 writer (mc/build.py) over thread maps x padding x record sequences, parsed
through both entry points; plus all histories of <=3 parses that reuse the same table objects."""
import io
import itertools

from mc.run import Check, main, h64
from mc.build import v2, rec
from mc.ref import ref_decode, thread_tables
from mc.space import seqs, chunked
from pykdebugparser.kd_buf_parser import KdBufParser
from pykdebugparser.pykdebugparser import PyKdebugParser

U64 = 2 ** 64 - 1
ENTRIES = [
    (1, 7, 'a'),
    (2, 7, 'bb'),                       # duplicate pid with a different name
    (1, 9, ''),                         # duplicate of tid 1, empty name
    (U64, 2 ** 32 - 1, 'n' * 20),       # extreme values, a name that fills the 20-byte field (no NUL)
    (3, 0, 'hé€llo'),         # multi-byte UTF-8
    (4, 8, b'ab\0junk'),                # junk after the NUL
    (5, 7, ''),                         # same pid as entries 0/1 with an EMPTY name (a later entry wins even when empty)
    (7, 3, 'q'),                        # a THREAD id that is numerically the PROCESS id of entries 0/1/6 (and a pid that is their tid)
    (8, 11, 'Cafe\u0301 A\u030a'),        # a name in decomposed form (base letter + combining mark): stored as it is written
    (0, 0, ''),                         # an entry of 32 zero bytes is an entry (thread 0, pid 0, no name), not the end of the map
    (9, 12, b'sh\0\xc3\xff\xfe'),          # behind the terminator: the tail of an older, longer name cut inside a character (not UTF-8)
]
CAPTURED = (b'\x8b\xf3\x8f1\x13\xeb\x03\x00ework_BusinessChat-7.0.1-py2.py3\xdeJ\x88\x00\x00\x00\x00\x00'
            b'\x90\x00\x01\x03\x01\x00\x00\x00\x00\x00\x00\x00\x00\x00\x00\x00')
RECORDS = {
    'cap': CAPTURED,
    'ff': b'\xff' * 64,
    'dist': bytes(range(1, 65)),
    'hi': (2 ** 56 + 1).to_bytes(8, 'little') + bytes(range(8, 52)) + bytes(12),     # timestamp >= 2^56 with a zero cpu word
    'z1': b'\x00' + bytes(range(1, 64)),      # first byte zero (a timestamp whose low byte is 0)
    'z2': b'\x00\x00' + bytes(range(2, 64)),
    'z7': bytes(7) + bytes(range(7, 64)),
    'z8': bytes(8) + bytes(range(8, 64)),     # timestamp 0
    'zero': bytes(64),                         # indistinguishable from padding when first; never generated first
    'm2': bytes([0x00, 0x02, 0xaa, 0x55]) + bytes(range(4, 64)),   # begins with the version-2 magic (timestamp low half 0x55aa0200)
    'm3': bytes([0x00, 0x03, 0xaa, 0x55]) + bytes(range(4, 64)),   # begins with the version-3 magic
}
NZ_FIRST = ['cap', 'ff', 'dist']              # kinds whose first byte is non-zero
PADS_Q = [0, 1, 2, 7, 8, 31, 32, 63, 64, 65, 100, 'page']
KINDS_CORE = ['cap', 'ff', 'z1', 'zero']
KINDS_ALL = list(RECORDS)


def pad_len(p, n):
    return 4096 - (0x120 + 32 * n) if p == 'page' else p


def build(tm_idx, pad, kinds):
    threads = [ENTRIES[i] for i in tm_idx]
    recs = [RECORDS[k] for k in kinds]
    return v2(threads, pad_len(pad, len(threads)), recs), threads, recs


def obs_event(e):
    return (e.timestamp, e.data, tuple(e.values), e.tid, e.debugid, e.eventid, e.func_qualifier)


def stream_at(blob, offset):
    """a stream whose first `offset` bytes are somebody else's (already consumed): the dump begins at the current position."""
    st = io.BytesIO(bytes((i * 11 + 3) % 255 + 1 for i in range(offset)) + blob)
    st.seek(offset)
    return st


def parse_kd(blob, tp, pn, offset=0):
    p = KdBufParser(tp, pn)
    out = []
    err = None
    try:
        for e in p.parse(stream_at(blob, offset)):
            out.append(obs_event(e))
    except Exception as ex:
        err = type(ex).__name__
    return out, err, p


def parse_facade(blob, parser, offset=0):
    out = []
    err = None
    try:
        for e in parser.kevents(stream_at(blob, offset)):
            out.append(obs_event(e))
    except Exception as ex:
        err = type(ex).__name__
    return out, err


def leading_zeros(b):
    n = 0
    while n < len(b) and b[n] == 0:
        n += 1
    return n


def classify(kinds, recs, got, err, exp):
    """signature for an event-stream mismatch."""
    if recs:
        z = leading_zeros(recs[0])
        if 0 < z < 64:
            # K1 mechanism: the greedy zero padding also swallowed the z leading zero bytes of the first record;
            # the observed stream is the decoding of the record bytes re-framed from offset z.
            body = b''.join(recs)[z:]
            # the pad is greedy: it also eats further zero bytes (can only be more if the record is all zero)
            frames = [body[i:i + 64] for i in range(0, len(body), 64)]
            shifted = [ref_decode(f) for f in frames if len(f) == 64]
            if got == shifted:
                return 'v2-pad-eats-leading-zero-bytes-of-first-record'
    if err is not None and len(got) <= len(exp) and got == exp[:len(got)]:
        return 'v2-parse-raised-after-prefix:' + err
    if len(got) != len(exp):
        return 'v2-event-count'
    return 'v2-event-content'


def judge_dump(tm_idx, pad, kinds, entry, offset=0):
    """returns list of (sig, detail)"""
    blob, threads, recs = build(tm_idx, pad, kinds)
    exp = [ref_decode(r) for r in recs]
    exp_tp, exp_pn = thread_tables(threads)
    bad = []
    if entry == 'kd':
        tp, pn = {99: 99}, {99: 'stale'}
        got, err, p = parse_kd(blob, tp, pn, offset)
        same_obj = p.threads_pids is tp and p.pids_names is pn
    else:
        f = PyKdebugParser()
        tp, pn = f.threads_pids, f.pids_names
        tp[99] = 99
        pn[99] = 'stale'
        got, err = parse_facade(blob, f, offset)
        same_obj = f.threads_pids is tp and f.pids_names is pn
    if got != exp or err is not None:
        bad.append((classify(kinds, recs, got, err, exp), {'got_n': len(got), 'exp_n': len(exp), 'err': err}))
    if tp != exp_tp or pn != exp_pn:
        bad.append(('v2-thread-tables', {'tp': repr(tp), 'pn': repr(pn), 'exp_tp': repr(exp_tp), 'exp_pn': repr(exp_pn)}))
    if not same_obj:
        bad.append(('v2-table-objects-replaced', {}))
    return bad


# ---- histories of parses through the same table objects -------------------------------------------------------
H_DUMPS = {
    'A': ((0, 1), 0, ('cap',)),            # tids 1,2 -> pid 7
    'B': ((3,), 64, ('ff', 'cap')),        # disjoint map
    'C': ((2, 4), 1, ()),                  # overlaps A on tid 1, no records
    'E': ((), 0, ('dist',)),               # empty map
    'F': ((7,), 0, ('cap',)),              # tid 7 -> pid 3: its thread id is dump A's process id
}
# truncated variants of dump A: parsing them raises (mid thread map / mid record); the tables afterwards are not judged, but
# the NEXT parse through the same objects must behave as if nothing had happened
H_BROKEN = {'A~map': ('A', 0x120 + 40), 'A~rec': ('A', -20), 'B~pad': ('B', 0x120 + 32 + 10)}


def judge_lazy(seq, mode):
    """all generators are CREATED first (same parser object / same facade), then consumed one after the other: after each has
    been consumed the tables must be that dump's map; events must be each dump's own."""
    if mode == 'kd1':
        tp, pn = {}, {}
        p = KdBufParser(tp, pn)
        make = lambda blob: p.parse(io.BytesIO(blob))
    elif mode == 'kd1-v2direct':
        tp, pn = {}, {}
        p = KdBufParser(tp, pn)

        def make(blob):
            r = io.BytesIO(blob)
            r.read(4)
            return p.parse_v2(r)
    else:
        f = PyKdebugParser()
        tp, pn = f.threads_pids, f.pids_names
        make = lambda blob: f.kevents(io.BytesIO(blob))
    built = [build(*H_DUMPS[name]) for name in seq]
    try:
        gens = [make(b[0]) for b in built]
        for step, (g, (blob, threads, recs)) in enumerate(zip(gens, built)):
            got = [obs_event(e) for e in g]
            if got != [ref_decode(r) for r in recs]:
                return [('v2-history-events', {'step': step, 'mode': 'lazy-' + mode})]
            exp_tp, exp_pn = thread_tables(threads)
            if tp != exp_tp or pn != exp_pn:
                return [('v2-history-leftover-or-missing-table-entry', {'step': step, 'mode': 'lazy-' + mode, 'tp': repr(tp), 'exp_tp': repr(exp_tp)})]
    except Exception as ex:
        return [('v2-history-raised:' + type(ex).__name__, {'error': repr(ex)[:200]})]
    return []


def judge_history(seq, mode):
    """seq of dump names; mode: 'kd' (same dicts, new KdBufParser each), 'kd1' (one KdBufParser object),
    'facade' (one PyKdebugParser), 'facade+traces' (a traces() run first that learns extra names)."""
    bad = []
    if mode == 'kd-default':
        # every parse through a NEW parser built without tables: each must end with its own dump's map, and a brand-new
        # parser must start empty
        for step, name in enumerate(seq):
            if name in H_BROKEN:
                continue
            p0 = KdBufParser()
            if p0.threads_pids or p0.pids_names:
                return [('v2-new-parser-does-not-start-empty', {'step': step, 'tp': repr(p0.threads_pids)})], ((), ())
            blob, threads, recs = build(*H_DUMPS[name])
            try:
                g = p0.parse(io.BytesIO(blob))
                first = next(g, None)
                other = KdBufParser()
                list(other.parse(io.BytesIO(build(*H_DUMPS['B'])[0])))  # another default-built parser runs to the end meanwhile
                rest = list(g)
            except Exception as ex:
                return [('v2-history-raised:' + type(ex).__name__, {'step': step, 'mode': mode, 'error': repr(ex)[:200]})], ((), ())
            exp_tp, exp_pn = thread_tables(threads)
            if p0.threads_pids != exp_tp or p0.pids_names != exp_pn:
                return [('v2-history-leftover-or-missing-table-entry', {'step': step, 'mode': mode, 'tp': repr(p0.threads_pids), 'exp_tp': repr(exp_tp)})], ((), ())
        return [], ((), ())
    if mode in ('kd', 'kd1'):
        tp, pn = {}, {}
        p = KdBufParser(tp, pn) if mode == 'kd1' else None
    else:
        f = PyKdebugParser()
        tp, pn = f.threads_pids, f.pids_names
        if mode == 'facade+traces':
            from mc import ev as E
            nt = rec(1, (50, 60, 0, 0), 1, E.n2i('TRACE_DATA_NEWTHREAD'))
            ns = rec(2, tid=1, debugid=E.n2i('TRACE_STRING_NEWTHREAD'), data=b'learned'.ljust(32, b'\0'))
            blob0 = v2([ENTRIES[0]], 0, [nt, ns])
            list(f.traces(io.BytesIO(blob0)))
            if tp.get(50) != 60 or pn.get(60) != 'learned':
                bad.append(('harness:traces-did-not-learn', {'tp': repr(tp), 'pn': repr(pn)}))
    for step, name in enumerate(seq):
        if name in H_BROKEN:
            base, cut = H_BROKEN[name]
            blob0 = build(*H_DUMPS[base])[0]
            blob0 = blob0[:cut]
            if mode == 'kd':
                parse_kd(blob0, tp, pn)
            elif mode == 'kd1':
                try:
                    list(p.parse(io.BytesIO(blob0)))
                except Exception:
                    pass
            else:
                parse_facade(blob0, f)
            continue
        tm_idx, pad, kinds = H_DUMPS[name]
        blob, threads, recs = build(tm_idx, pad, kinds)
        exp = [ref_decode(r) for r in recs]
        exp_tp, exp_pn = thread_tables(threads)
        if mode == 'kd':
            got, err, _ = parse_kd(blob, tp, pn)
        elif mode == 'kd1':
            got, err = [], None
            try:
                got = [obs_event(e) for e in p.parse(io.BytesIO(blob))]
            except Exception as ex:
                err = type(ex).__name__
        else:
            got, err = parse_facade(blob, f)
        if got != exp or err:
            bad.append(('v2-history-events', {'step': step, 'err': err, 'got_n': len(got), 'exp_n': len(exp)}))
        if tp != exp_tp or pn != exp_pn:
            bad.append(('v2-history-leftover-or-missing-table-entry',
                        {'step': step, 'tp': repr(tp), 'exp_tp': repr(exp_tp), 'pn': repr(pn), 'exp_pn': repr(exp_pn)}))
        if bad:
            break
    return bad, (tuple(sorted(tp.items())), tuple(sorted(pn.items())))


def judge_concurrent(a, b, schedule):
    """two version-2 parses alive at once (separate parser objects, separate tables), their generators advanced in the order
    given by `schedule` (0 = first, 1 = second): each must yield exactly its own records."""
    dumps = []
    for name in (a, b):
        tm_idx, pad, kinds = C_DUMPS[name]
        blob, threads, recs = build(tm_idx, pad, kinds)
        dumps.append((blob, [ref_decode(r) for r in recs]))
    gens = [KdBufParser({}, {}).parse(io.BytesIO(d[0])) for d in dumps]
    got = [[], []]
    try:
        for who in schedule:
            got[who].append(obs_event(next(gens[who])))
        for who in (0, 1):
            for e in gens[who]:
                got[who].append(obs_event(e))
    except Exception as ex:
        return ('v2-concurrent-parse-raised:' + type(ex).__name__, {'error': repr(ex)[:200]})
    for who in (0, 1):
        if got[who] != dumps[who][1]:
            return ('v2-concurrent-parses-interfere', {'parse': who, 'got_n': len(got[who]), 'exp_n': len(dumps[who][1]),
                                                     'first_diff': next((i for i, (x, y) in enumerate(zip(got[who], dumps[who][1])) if x != y), None)})
    return None


C_DUMPS = {
    'P': ((0,), 0, ('cap', 'ff', 'dist')),
    'Q': ((3,), 64, ('dist', 'z1', 'cap')),
    'R': ((), 1, ('ff', 'ff')),
}


class C02(Check):
    pid = 'C02'
    level = 'model_checking'
    rule = ('version-2 dumps written by an independent encoder: full product thread map (all sequences of <=2 (quick) / <=3 '
            '(thorough) entries over 7 entry kinds incl. duplicate tid, duplicate pid, empty/19-byte/multi-byte/junk-after-NUL '
            'names) x padding length (12 values incl. 0, 1, 63..65, page alignment) x record sequence (<=2 (quick) / <=3 '
            '(thorough) over 10 record kinds incl. records beginning with 1,2,7,8 zero bytes and, in '
            'non-first position, an all-zero record and records beginning with the version-2 / version-3 magic) x both entry points; plus all sequences of <=3 parses over 4 dumps through the same table '
            'objects in 4 reuse modes (also after a parse that RAISED on a truncated dump), and with all generators created first and consumed afterwards (same parser via parse(), via parse_v2() directly, same facade); plus two parses ALIVE AT ONCE (3x3 dump pairs), their generators advanced in every interleaving; plus dumps of 2^k-1, 2^k, 2^k+1 records for k = 6..13; plus every combination of the header scalars (pointer-width flag {0,1,2,2^32-1} x tick frequency {0, 24 MHz, 2^64-1} x time of day {zeros, all-ones}) over 1..5 records whose timestamps use their top byte or whose thread id has a mapped thread as its low half. Oracle: events == independent decode of each record; tables == file map (last wins), '
            'identity preserved, nothing left over. non-trivial = dump has >=1 record and >=1 map entry (or history length >=2). '
            'states = distinct table contents after a parse; transitions = parse calls.')
    assumptions = ('a first record of 64 zero bytes is indistinguishable from padding and is not generated first',
                   'v2 writer (mc/build.py) is the trusted description of the format; cross-checked against the hand-built '
                   'file of tests/test_pykdebugparser.py in /verif/tests')

    def params(self):
        if self.tier == 'quick':
            return dict(tm_len=2, pads=PADS_Q, rec_len=2)
        return dict(tm_len=3, pads=PADS_Q, rec_len=3)

    def bounds(self):
        return self.params()

    def _tms(self):
        return list(seqs(range(len(ENTRIES)), self.params()['tm_len']))

    def _recseqs(self):
        out = []
        for s in seqs(KINDS_ALL, self.params()['rec_len']):
            if s and s[0] in ('zero', 'm2', 'm3'):      # first byte zero: K1 territory, never generated first
                continue
            out.append(s)
        return out

    def shards(self):
        tms = self._tms()
        out = [('dumps', chunk) for chunk in chunked(tms, 64)]
        out.append(('hist',))
        out.append(('concurrent',))
        out.append(('long',))
        return out

    def run_shard(self, desc, acc):
        if desc[0] == 'dumps':
            recseqs = self._recseqs()
            for tm in desc[1]:
                for pad in self.params()['pads']:
                    for kinds in recseqs:
                        for entry in ('kd', 'facade'):
                            bad = judge_dump(tm, pad, kinds, entry)
                            acc.case(nontrivial=bool(tm) and bool(kinds), transitions=1,
                                     state=h64(thread_tables([ENTRIES[i] for i in tm])),
                                     outcome=h64((len(kinds), tm)))
                            for sig, detail in bad:
                                acc.violation(sig, {'kind': 'dump', 'tm': list(tm), 'pad': pad, 'records': list(kinds),
                                                    'entry': entry}, detail)
                        if acc.want_sample() and tm and len(kinds) >= 2:
                            acc.sample({'threadmap': [repr(ENTRIES[i]) for i in tm], 'pad': pad, 'records': list(kinds)})
        elif desc[0] == 'long':
            # many records (a reader that batches, caps or recycles buffers is invisible to 3-record dumps)
            pool = [rec(ts, (a, 0, 0, 0), 9, 0x040c0004 | q) for ts, a, q in ((5, 9, 2), (5, 1, 1), (5, 5, 0), (4, 7, 1), (6, 0, 2))]
            for perm in itertools.permutations(range(len(pool)), 4):
                recs = [pool[i] for i in perm]
                for entry in ('kd', 'facade'):
                    if entry == 'kd':
                        got, err, _ = parse_kd(v2([], 0, recs), {}, {})
                    else:
                        got, err = parse_facade(v2([], 0, recs), PyKdebugParser())
                    acc.case(nontrivial=True, transitions=4, outcome=h64(('order', perm)))
                    if got != [ref_decode(r) for r in recs] or err:
                        acc.violation('v2-events-not-in-file-order', {'kind': 'long', 'perm': list(perm), 'entry': entry}, {'err': err})
            # the header's scalar fields (pointer-width flag, tick frequency, time of day) say nothing about the records: every
            # combination x records whose timestamp uses its top byte
            hrecs = [RECORDS['hi'], rec((1 << 64) - 1, (1, 2, 3, 4), 9, 0x040c0005), rec(0xff00000000000007, (0, 0, 0, 0), 1, 0x01400000, cpuid=3), rec(7, (5, 6, 7, 8), 2, 0x040c0006),
                     rec(8, (1, 1, 1, 1), (1 << 32) | ENTRIES[0][0], 0x040c0004)]     # a thread id whose low half is a thread of the map
            for is64 in (0, 1, 2, 0xffffffff):
                for tick in (0, 24000000, (1 << 64) - 1):
                    for tod in (bytes(12), b'\xff' * 12):
                        for k in range(1, len(hrecs) + 1):
                            for tm in ((), (ENTRIES[0],)):
                                blob = v2(list(tm), 0, hrecs[:k], is_64bit=is64, tick=tick, tod=tod)
                                for entry in ('kd', 'facade'):
                                    if entry == 'kd':
                                        got, err, _ = parse_kd(blob, {}, {})
                                    else:
                                        got, err = parse_facade(blob, PyKdebugParser())
                                    acc.case(nontrivial=True, transitions=k, outcome=h64(('hdr', is64, tick, tod, k)))
                                    if got != [ref_decode(r) for r in hrecs[:k]] or err:
                                        acc.violation('v2-events-depend-on-header-scalars', {'kind': 'long', 'is_64bit': is64, 'tick': tick, 'tod': tod.hex(), 'n': k, 'threads': len(tm), 'entry': entry},
                                                      {'err': err, 'got_n': len(got or [])})
            for n in sorted({2 ** k + d for k in range(6, 14) for d in (-1, 0, 1)} | {1500}):
                recs = [rec(1000 + i, (i, i * 3, 7, 9), 1 + i % 3, 0x040c0004 | (i % 4)) for i in range(n)]
                for pad in (0, 64):
                    blob = v2([ENTRIES[0]], pad, recs)
                    for entry in ('kd', 'facade'):
                        if entry == 'kd':
                            got, err, _ = parse_kd(blob, {}, {})
                        else:
                            got, err = parse_facade(blob, PyKdebugParser())
                        exp = [ref_decode(r) for r in recs]
                        acc.case(nontrivial=True, transitions=n, outcome=h64(('long', n)))
                        if got != exp or err:
                            acc.violation('v2-long-dump-events', {'kind': 'long', 'n': n, 'pad': pad, 'entry': entry},
                                          {'got_n': len(got), 'exp_n': n, 'err': err,
                                           'first_diff': next((i for i, (x, y) in enumerate(zip(got, exp)) if x != y), None)})
            # the caller's stream belongs to the caller: after a parse it can be rewound and handed in again (same parser / a new one), for
            # every kind of stream object
            import gc
            import os
            import tempfile
            blob, threads, recs = build((0, 1), 64, ('cap', 'ff'))
            exp = [ref_decode(r) for r in recs]
            fd, path = tempfile.mkstemp(prefix='verif_c02_')
            os.write(fd, blob)
            os.close(fd)
            try:
                import bz2
                import gzip
                import lzma
                for mod, ext in ((gzip, '.gz'), (bz2, '.bz2'), (lzma, '.xz')):
                    with mod.open(path + ext, 'wb') as zf:
                        zf.write(blob)
                import mmap

                class Window:
                    """a hand-written seekable reader (read / seek / tell only) over a part of a container file"""

                    def __init__(self, data, start):
                        self.data, self.start, self.pos = data, start, 0

                    def read(self, n=-1):
                        end = len(self.data) - self.start if n is None or n < 0 else min(self.pos + n, len(self.data) - self.start)
                        r = self.data[self.start + self.pos:self.start + end]
                        self.pos = max(self.pos, end)
                        return r

                    def seek(self, off, whence=0):
                        self.pos = off if whence == 0 else self.pos + off if whence == 1 else len(self.data) - self.start + off
                        return self.pos

                    def tell(self):
                        return self.pos

                    def close(self):
                        pass

                def named_temporary():
                    t = tempfile.NamedTemporaryFile(prefix='verif_c02_nt_')
                    t.write(blob)
                    t.flush()
                    return t
                for kind in ('BytesIO', 'BufferedReader-over-BytesIO', 'file-unbuffered', 'file-buffered', 'gzip-file', 'bz2-file', 'lzma-file',
                             'NamedTemporaryFile', 'mmap', 'hand-written-reader-over-a-container'):
                    for entry in ('kd', 'kd-same-parser', 'facade'):
                        st = {'NamedTemporaryFile': named_temporary, 'mmap': lambda: mmap.mmap(os.open(path, os.O_RDONLY), 0, access=mmap.ACCESS_READ),
                              'hand-written-reader-over-a-container': lambda: Window(b'container header' + blob, 16),
                              'BytesIO': lambda: io.BytesIO(blob), 'BufferedReader-over-BytesIO': lambda: io.BufferedReader(io.BytesIO(blob), buffer_size=128),
                              'file-unbuffered': lambda: open(path, 'rb', buffering=0), 'file-buffered': lambda: open(path, 'rb'),
                              'gzip-file': lambda: gzip.open(path + '.gz', 'rb'), 'bz2-file': lambda: bz2.open(path + '.bz2', 'rb'),
                              'lzma-file': lambda: lzma.open(path + '.xz', 'rb')}[kind]()
                        p1 = KdBufParser({}, {})
                        f1 = PyKdebugParser()
                        got = []
                        try:
                            for rnd in range(3):
                                st.seek(0)
                                src = (KdBufParser({}, {}) if entry == 'kd' else p1).parse(st) if entry != 'facade' else f1.kevents(st)
                                got.append([obs_event(e) for e in src])
                                del src
                                gc.collect()
                            err = None
                        except Exception as ex:
                            err = type(ex).__name__ + ': ' + str(ex)[:80]
                        finally:
                            try:
                                st.close()
                            except Exception:
                                pass
                        acc.case(nontrivial=True, transitions=3, outcome=h64(('rewind', kind, entry)))
                        if err or got != [exp, exp, exp]:
                            acc.violation('v2-stream-cannot-be-rewound-and-parsed-again', {'kind': 'long', 'stream': kind, 'entry': entry}, {'err': err, 'rounds': [len(g) for g in got]})
            finally:
                for ext in ('', '.gz', '.bz2', '.xz'):
                    if os.path.exists(path + ext):
                        os.unlink(path + ext)
            # a parse that was started on the same parser object, not read to its end and is still REFERENCED (a kept generator; the
            # traceback of a consumer that raised) does not stand in the way of the next, complete parse
            for a, b in itertools.product(sorted(H_DUMPS), repeat=2):
                for how in ('generator-kept', 'consumer-raised-and-the-error-is-kept', 'generator-created-not-started'):
                    blob_a = build(*H_DUMPS[a])[0]
                    blob_b, threads_b, recs_b = build(*H_DUMPS[b])
                    tp, pn = {}, {}
                    pk = KdBufParser(tp, pn)
                    kept = []
                    try:
                        g = pk.parse(io.BytesIO(blob_a))
                        if how == 'generator-kept':
                            next(g, None)
                            kept.append(g)
                        elif how == 'generator-created-not-started':
                            kept.append(g)
                        else:
                            def consumer(gen):
                                for e in gen:
                                    raise KeyError('the consumer failed')
                            try:
                                consumer(g)
                            except KeyError as ex:
                                kept.append(ex)
                        got = [obs_event(e) for e in pk.parse(io.BytesIO(blob_b))]
                        err = None
                    except Exception as ex:
                        got, err = None, type(ex).__name__ + ': ' + str(ex)[:80]
                    acc.case(nontrivial=True, transitions=2, outcome=h64(('abandoned', a, b, how)))
                    exp_tp, exp_pn = thread_tables(threads_b)
                    if err or got != [ref_decode(r) for r in recs_b] or (tp, pn) != (exp_tp, exp_pn):
                        acc.violation('v2-parse-after-an-unfinished-parse-on-the-same-object', {'kind': 'long', 'first': a, 'second': b, 'how': how},
                                      {'err': err, 'got_n': None if got is None else len(got), 'tables': repr((tp, pn))[:160]})
                    del kept
            # any padding length: zero fills that end just before / at / past the 16K and 32K boundaries of the dump (a small thread map
            # with a long fill; a thread map that itself ends 32 / 96 bytes before the boundary with a short fill)
            for n, pad in [(0, 0x4000 - 0x120 + d) for d in (-64, -1, 0, 1, 64, 65)] + [(0, 0x8000 - 0x120 + d) for d in (0, 64)] + \
                          [(502, 0), (502, 32), (502, 64), (502, 96), (500, 96), (500, 4096), (1014, 4096)]:
                threads = [(1000 + i, 7 + i % 3, 'p%d' % (i % 5)) for i in range(n)]
                recs = [RECORDS['cap'], RECORDS['ff'], RECORDS['cap']]
                blob = v2(threads, pad, recs)
                tp, pn = {}, {}
                got, err, _ = parse_kd(blob, tp, pn)
                acc.case(nontrivial=True, transitions=3, outcome=h64(('fill', n, pad)))
                exp_tp, exp_pn = thread_tables(threads)
                if err or got != [ref_decode(r) for r in recs] or (tp, pn) != (exp_tp, exp_pn):
                    acc.violation('v2-long-fill-events', {'kind': 'long', 'thread_map_entries': n, 'pad': pad}, {'err': err, 'got_n': len(got), 'exp_n': 3})
            # the dump does not begin at stream position 0 (every pad kind, with and without thread map)
            for off in (1, 7, 8, 63, 64, 0x100, 0x120, 0x123, 4000, 4091, 4096, 4100):
                for tm in ((), (0,), (0, 1)):
                    for pad in PADS_Q:
                        for kinds in (('cap',), ('ff', 'cap')):
                            for entry in ('kd', 'facade'):
                                bad = judge_dump(tm, pad, kinds, entry, offset=off)
                                acc.case(nontrivial=True, transitions=1, outcome=h64(('offset', off, pad)))
                                for sig, detail in bad:
                                    acc.violation(sig + ':dump-not-at-stream-start', {'kind': 'long', 'offset': off, 'tm': list(tm), 'pad': pad, 'records': list(kinds), 'entry': entry}, detail)
        elif desc[0] == 'concurrent':
            from mc.space import interleavings
            for a, b in itertools.product(C_DUMPS, repeat=2):
                na, nb = len(C_DUMPS[a][2]), len(C_DUMPS[b][2])
                for sched in interleavings([na, nb]):
                    bad = judge_concurrent(a, b, sched)
                    acc.case(nontrivial=len(set(sched)) == 2, transitions=na + nb, outcome=h64((a, b, sched)))
                    if bad:
                        acc.violation(bad[0], {'kind': 'concurrent', 'a': a, 'b': b, 'schedule': list(sched)}, bad[1])
            acc.sample({'concurrent_parses': ['P', 'Q'], 'schedule': [0, 1, 0, 1, 1, 0]})
        else:
            for mode in ('kd', 'kd1', 'facade', 'facade+traces', 'kd-default'):
                for seq in list(seqs(list(H_DUMPS), 3, 1)) + [(b, d) for b in H_BROKEN for d in H_DUMPS] + \
                        [(d0, b, d) for d0 in ('A', 'B') for b in H_BROKEN for d in H_DUMPS]:
                    bad, st = judge_history(seq, mode)
                    acc.case(nontrivial=len(seq) >= 2, transitions=len(seq), state=h64(st), outcome=h64((seq, st)))
                    for sig, detail in bad:
                        acc.violation(sig, {'kind': 'hist', 'seq': list(seq), 'mode': mode}, detail)
            for mode in ('kd1', 'kd1-v2direct', 'facade'):
                for seq in seqs(list(H_DUMPS), 3, 2):
                    bad = judge_lazy(seq, mode)
                    acc.case(nontrivial=True, transitions=len(seq), outcome=h64((seq, 'lazy', mode)))
                    for sig, detail in bad:
                        acc.violation(sig, {'kind': 'lazy', 'seq': list(seq), 'mode': mode}, detail)
            acc.sample({'parse_history': ['A', 'C', 'E'], 'mode': 'facade+traces'})

    def replay(self, case):
        if case['kind'] == 'dump':
            pad = case['pad']
            return judge_dump(tuple(case['tm']), pad, tuple(case['records']), case['entry'])
        if case['kind'] == 'lazy':
            return judge_lazy(tuple(case['seq']), case['mode'])
        if case['kind'] == 'long':
            from mc.run import Acc
            acc = Acc()
            self.run_shard(('long',), acc)
            return [(sig, v['cases'][0][1]) for sig, v in acc.violations.items()]
        if case['kind'] == 'concurrent':
            bad = judge_concurrent(case['a'], case['b'], tuple(case['schedule']))
            return [bad] if bad else []
        bad, _ = judge_history(tuple(case['seq']), case['mode'])
        return bad


if __name__ == '__main__':
    main(C02)
