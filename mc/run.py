"""Explorer: bounded exhaustive exploration engine shared by every check.

A check module supplies a `Check` subclass.  The engine
  * asks it for the shards of its (finite, explicitly bounded) space,
  * runs every shard in a forked worker (fresh implementation objects per case are the check's
    responsibility; the engine never copies live parser objects),
  * merges the per-shard accumulators (counts, state hashes, outcome hashes, violations, samples),
  * confirms every distinct violation signature twice in a fresh subprocess (determinism),
  * matches signatures against /verif/known_findings.json,
  * writes /verif/evidence/<id>.json and replay files, prints VIOLATION / KNOWN-FINDING lines,
  * exits 0 / 1 / 2 (2 = HARNESS-ERROR: the machinery, not the code, is at fault).
"""
import argparse
import hashlib
import json
import multiprocessing
import os
import subprocess
import sys
import time
import traceback

VERIF = os.path.dirname(os.path.dirname(os.path.abspath(__file__)))
REPO = os.environ.get('VERIF_REPO', '/repo')
NPROC = int(os.environ.get('VERIF_JOBS', '16'))
MAX_STORED_PER_SIG = 3
MAX_CONFIRM = 8   # at most this many distinct signatures are re-executed in fresh subprocesses per run


def h64(obj):
    """Stable 64-bit digest of a repr-able object (independent of PYTHONHASHSEED)."""
    return int.from_bytes(hashlib.blake2b(repr(obj).encode('utf8', 'backslashreplace'), digest_size=8).digest(), 'little')


class Acc:
    """Per-shard accumulator handed to Check.run_shard."""

    def __init__(self, sample_budget=2):
        self.evaluations = 0
        self.nontrivial = 0
        self.nontrivial_keys = None  # set when the check passes explicit keys
        self.transitions = 0
        self.validated = 0
        self.states = set()
        self.outcomes = set()
        self.violations = {}  # sig -> {'count': n, 'cases': [(case, detail)]}
        self.samples = []
        self.sample_budget = sample_budget
        self.counters = {}
        self.digests = None  # optional list of per-case outcome digests (order check)

    def case(self, nontrivial=False, transitions=0, state=None, outcome=None, key=None, validated=1):
        self.evaluations += 1
        self.transitions += transitions
        self.validated += validated
        if nontrivial:
            if key is not None:
                if self.nontrivial_keys is None:
                    self.nontrivial_keys = set()
                self.nontrivial_keys.add(key if isinstance(key, int) else h64(key))
            else:
                self.nontrivial += 1
        if state is not None:
            self.states.add(state if isinstance(state, int) else h64(state))
        if outcome is not None:
            o = outcome if isinstance(outcome, int) else h64(outcome)
            self.outcomes.add(o)
            if self.digests is not None:
                self.digests.append(o)

    def state(self, state):
        self.states.add(state if isinstance(state, int) else h64(state))

    def count(self, name, n=1):
        self.counters[name] = self.counters.get(name, 0) + n

    def violation(self, sig, case, detail):
        v = self.violations.setdefault(sig, {'count': 0, 'cases': []})
        v['count'] += 1
        if len(v['cases']) < MAX_STORED_PER_SIG:
            v['cases'].append((case, detail))

    def sample(self, case):
        if len(self.samples) < self.sample_budget:
            self.samples.append(case)

    def want_sample(self):
        return len(self.samples) < self.sample_budget


class Check:
    """Base class. Subclasses set the attributes and implement shards/run_shard/replay."""
    pid = 'C00'
    level = 'exploration'
    rule = ''
    assumptions = ()
    design_ref = ''

    def __init__(self, tier, seed):
        self.tier = tier
        self.seed = seed

    # --- to implement -------------------------------------------------------------------
    def shards(self):
        """list of picklable shard descriptors; together they cover the whole space once."""
        raise NotImplementedError

    def run_shard(self, desc, acc):
        raise NotImplementedError

    def replay(self, case):
        """re-run one stored case; return list of (sig, detail) still failing."""
        raise NotImplementedError

    def bounds(self):
        return {}

    def finalize(self, merged):
        """optional global checks after merge; may add violations via merged.violation."""
        return None


def _fingerprint_modules():
    """Digest of module-level mutable state of pykdebugparser.* (handler dicts, enums, globals)."""
    import enum
    import types
    items = []
    for name in sorted(sys.modules):
        if not name.startswith('pykdebugparser'):
            continue
        mod = sys.modules[name]
        if mod is None:
            continue
        for k in sorted(vars(mod)):
            v = vars(mod)[k]
            if k.startswith('__'):
                continue
            if isinstance(v, dict):
                items.append((name, k, 'dict', tuple((repr(a), _fp_val(b)) for a, b in v.items())))
            elif isinstance(v, (list, tuple, set, frozenset)):
                items.append((name, k, type(v).__name__, tuple(_fp_val(x) for x in v)))
            elif isinstance(v, (int, str, bytes, float, type(None))):
                items.append((name, k, 'val', repr(v)))
            elif isinstance(v, type) and issubclass(v, enum.Enum):
                items.append((name, k, 'enum', tuple((m, repr(x.value)) for m, x in v.__members__.items())))
            elif isinstance(v, types.FunctionType):
                items.append((name, k, 'func', repr(v.__defaults__), repr(v.__kwdefaults__), _fp_attrs(v)))
            elif hasattr(v, 'cache_info') and callable(getattr(v, 'cache_info', None)):
                # functools.lru_cache / cache wrappers: a memo that fills up during exploration is hidden state
                items.append((name, k, 'lru', repr(v.cache_info().currsize)))
            elif isinstance(v, type) and getattr(v, '__module__', '') == name:
                # class-level mutable attributes (a dict/list/set hoisted to class scope is shared by every instance)
                for ak in sorted(vars(v)):
                    av = vars(v)[ak]
                    if ak.startswith('__'):
                        continue
                    if isinstance(av, dict):
                        items.append((name, k, ak, 'cdict', tuple((repr(a), _fp_val(b)) for a, b in av.items())))
                    elif isinstance(av, (list, set)):
                        items.append((name, k, ak, 'clist', tuple(sorted(_fp_val(x) for x in av)) if isinstance(av, set) else tuple(_fp_val(x) for x in av)))
                    elif hasattr(av, 'cache_info') and callable(getattr(av, 'cache_info', None)):
                        items.append((name, k, ak, 'clru', repr(av.cache_info().currsize)))
                    elif isinstance(av, (types.FunctionType, classmethod, staticmethod)):
                        fn = av.__func__ if isinstance(av, (classmethod, staticmethod)) else av
                        items.append((name, k, ak, 'cfunc', repr(getattr(fn, '__defaults__', None)), _fp_attrs(fn)))
    return h64(items)


def _fp_attrs(fn):
    """mutable state parked on a function object: attributes and mutable default arguments / closure cells."""
    out = []
    for ak, av in sorted(getattr(fn, '__dict__', {}).items()):
        if isinstance(av, (dict, list, set)):
            out.append((ak, repr(sorted(map(repr, av)) if isinstance(av, set) else av)[:2000]))
    for cell in (getattr(fn, '__closure__', None) or ()):
        try:
            cv = cell.cell_contents
        except ValueError:
            continue
        if isinstance(cv, (dict, list, set)):
            out.append(('closure', repr(cv)[:2000]))
    return tuple(out)


def _fp_val(v):
    import functools
    import types
    if isinstance(v, types.FunctionType):
        return 'func:' + v.__module__ + '.' + v.__qualname__
    if isinstance(v, functools.partial):
        return ('partial', _fp_val(v.func), repr(v.args), repr(v.keywords))
    if isinstance(v, type):
        return 'type:' + v.__module__ + '.' + v.__qualname__
    return repr(v)


_CHECK = None


def _worker(arg):
    idx, desc = arg
    acc = Acc()
    if getattr(_CHECK, 'order_check', False):
        acc.digests = []
    try:
        fp0 = _fingerprint_modules()
        _CHECK.run_shard(desc, acc)
        fp1 = _fingerprint_modules()
        for v in acc.violations.values():
            v['shard'] = desc
        if fp0 != fp1:
            # not a violation by itself (a harmless cache also changes module state): recorded in the evidence, and the
            # oracles - which judge every case against a reference that is independent of earlier cases - decide
            acc.count('shards_in_which_module_level_state_changed')
        return idx, acc, None
    except Exception:
        return idx, acc, traceback.format_exc()


def explore(check, jobs=NPROC):
    global _CHECK
    _CHECK = check
    shards = list(check.shards())
    # VERIF_SEED only rotates the order in which shards are handed out.
    rot = check.seed % max(1, len(shards))
    order = list(range(len(shards)))
    order = order[rot:] + order[:rot]
    results = {}
    ctx = multiprocessing.get_context('fork')
    if jobs > 1 and len(shards) > 1:
        # safety net: the shards of every check finish within minutes; when NO shard at all finishes for this long an execution of the
        # library does not terminate - the check can then decide nothing and says so instead of hanging
        patience = float(os.environ.get('VERIF_SHARD_PATIENCE', 2400 if check.tier == 'quick' else 7200))
        with ctx.Pool(min(jobs, len(shards))) as pool:
            it = pool.imap_unordered(_worker, [(i, shards[i]) for i in order], chunksize=1)
            while True:
                try:
                    idx, acc, err = it.next(timeout=patience)
                except StopIteration:
                    break
                except multiprocessing.TimeoutError:
                    print(f'HARNESS-ERROR no shard finished within {patience:.0f}s: an execution does not terminate '
                          f'({len(results)} of {len(shards)} shards done)')
                    pool.terminate()
                    sys.exit(2)
                if err:
                    print('HARNESS-ERROR shard', idx, err)
                    sys.exit(2)
                results[idx] = acc
    else:
        for i in order:
            idx, acc, err = _worker((i, shards[i]))
            if err:
                print('HARNESS-ERROR shard', idx, err)
                sys.exit(2)
            results[idx] = acc
    merged = Acc(sample_budget=6)
    keys = None
    digests = {}
    for i in range(len(shards)):
        a = results[i]
        merged.evaluations += a.evaluations
        merged.nontrivial += a.nontrivial
        if a.nontrivial_keys is not None:
            keys = (keys or set()) | a.nontrivial_keys
        merged.transitions += a.transitions
        merged.validated += a.validated
        merged.states |= a.states
        merged.outcomes |= a.outcomes
        for k, v in a.counters.items():
            merged.counters[k] = merged.counters.get(k, 0) + v
        for sig, v in a.violations.items():
            m = merged.violations.setdefault(sig, {'count': 0, 'cases': []})
            m['count'] += v['count']
            m.setdefault('shard', v.get('shard'))
            for c in v['cases']:
                if len(m['cases']) < MAX_STORED_PER_SIG:
                    m['cases'].append(c)
        if a.digests is not None:
            digests[i] = a.digests
    # samples: pick from shards rotated by seed so different seeds show different cases
    for i in order:
        for s in results[i].samples:
            merged.sample(s)
    if keys is not None:
        merged.nontrivial += len(keys)
    merged.shard_digests = digests
    merged.nshards = len(shards)
    return merged


def _to_jsonable(x):
    if isinstance(x, (tuple, list)):
        return {'__seq__': 'tuple' if isinstance(x, tuple) else 'list', 'items': [_to_jsonable(i) for i in x]}
    if isinstance(x, bytes):
        return {'__bytes__': x.hex()}
    return x


def _from_jsonable(x):
    if isinstance(x, dict) and '__seq__' in x:
        items = [_from_jsonable(i) for i in x['items']]
        return tuple(items) if x['__seq__'] == 'tuple' else items
    if isinstance(x, dict) and '__bytes__' in x:
        return bytes.fromhex(x['__bytes__'])
    return x


def load_known():
    path = os.path.join(VERIF, 'known_findings.json')
    if not os.path.exists(path):
        return []
    with open(path) as f:
        return json.load(f)['findings']


def _confirm(check, path):
    """Replay a stored violation twice in fresh subprocesses; both must fail identically."""
    outs = []
    for _ in range(2):
        p = subprocess.run([sys.executable, '-m', 'checks.' + check.pid.lower(), '--replay', path],
                           cwd=VERIF, capture_output=True, text=True, env=os.environ)
        sigs = sorted(l for l in p.stdout.splitlines() if l.startswith('REPLAY-SIG '))
        outs.append((p.returncode, tuple(sigs)))
    return outs


def main(check_cls):
    ap = argparse.ArgumentParser()
    ap.add_argument('--tier', default=os.environ.get('VERIF_TIER', 'quick'), choices=['quick', 'thorough'])
    ap.add_argument('--replay', default=None)
    ap.add_argument('--jobs', type=int, default=NPROC)
    ap.add_argument('--no-evidence', action='store_true')
    args = ap.parse_args()
    seed = int(os.environ.get('VERIF_SEED', '0') or 0)
    check = check_cls(args.tier, seed)

    if args.replay:
        with open(args.replay) as f:
            rec = json.load(f)
        if rec.get('replay_shard') is not None:
            check.tier = rec.get('tier', check.tier)
            acc = Acc()
            check.run_shard(_from_jsonable(rec['replay_shard']), acc)
            bad = [(sig, v['cases'][0][1]) for sig, v in acc.violations.items() if sig == rec['signature']]
        else:
            bad = check.replay(rec['case'])
        for sig, detail in bad:
            print('REPLAY-SIG', sig)
            print('  detail:', json.dumps(detail, default=repr)[:2000])
        if bad:
            print(f'VIOLATION property={check.pid} replay={args.replay}')
            sys.exit(1)
        print('replay: no violation')
        sys.exit(0)

    t0 = time.time()
    merged = explore(check, args.jobs)
    check.finalize(merged)
    wall = time.time() - t0

    known = {(k['property'], k['signature']): k for k in load_known() if k.get('status') == 'known'}
    replay_dir = os.environ.get('VERIF_REPLAY_DIR') or os.path.join(VERIF, 'replays')
    os.makedirs(replay_dir, exist_ok=True)
    new_violations = 0
    confirmed = 0
    known_seen = []
    lines = []
    harness_error = False
    for sig in sorted(merged.violations):
        v = merged.violations[sig]
        kf = known.get((check.pid, sig))
        if kf is not None:
            known_seen.append({'signature': sig, 'count': v['count']})
            lines.append(f"KNOWN-FINDING: property={check.pid} {kf['what']} [signature={sig}, {v['count']} case(s) this run]")
            continue
        case, detail = v['cases'][0]
        safe = ''.join(c if c.isalnum() or c in '-_.' else '_' for c in sig)[:80]
        path = os.path.join(replay_dir, f'{check.pid}-{safe}.json')
        with open(path, 'w') as f:
            json.dump({'property': check.pid, 'signature': sig, 'count': v['count'], 'case': case,
                       'detail': detail, 'tier': args.tier}, f, indent=1, default=repr)
        confirmed += 1
        if sig != 'module-level-state-changed-during-exploration' and confirmed <= MAX_CONFIRM:
            conf = _confirm(check, path)
            if conf[0] != conf[1]:
                print(f'HARNESS-ERROR: replay of {path} is not deterministic: {conf}')
                harness_error = True
                continue
            if conf[0][0] != 1:
                print(f'NOTE: violation {sig} seen in pool does not reproduce in a fresh process ({conf[0]}); '
                      f'the execution depends on what ran before it. case={json.dumps(case, default=repr)[:400]}')
                # An order-dependent result IS a property-relevant defect of the code when the check's
                # cases are independent by construction; report as a violation of its own kind.
                # make the replay file reproduce it: re-run the whole shard (the earlier executions) in order
                with open(path, 'w') as f:
                    json.dump({'property': check.pid, 'signature': sig, 'count': v['count'], 'case': case, 'detail': detail,
                               'tier': args.tier, 'replay_shard': _to_jsonable(v.get('shard')),
                               'note': 'order-dependent: the case alone passes in a fresh process; replay re-runs its shard'}, f, indent=1, default=repr)
                new_violations += 1
                lines.append(f'VIOLATION property={check.pid} replay={path}')
                lines.append(f'  signature={sig} (in-pool only: result depends on earlier executions) count={v["count"]}')
                continue
        new_violations += 1
        lines.append(f'VIOLATION property={check.pid} replay={path}')
        lines.append(f'  signature={sig} count={v["count"]} detail={json.dumps(detail, default=repr)[:600]}')

    caps = merged.counters.pop('caps_hit', 0)
    cov = {
        'evaluations': merged.evaluations,
        'distinct_nontrivial': merged.nontrivial,
        'rule': check.rule,
        'samples': merged.samples,
        'states': len(merged.states),
        'transitions': merged.transitions,
        'traces_validated_against_impl': merged.validated,
        'distinct_outcomes': len(merged.outcomes),
        'exhaustive': caps == 0,
        'caps_hit': caps,
        'bounds': check.bounds(),
        'shards': merged.nshards,
        'counters': merged.counters,
        'known_findings_seen': known_seen,
        'violation_signatures': {s: merged.violations[s]['count'] for s in merged.violations},
        'repo': REPO,
    }
    ev = {
        'property_id': check.pid,
        'tier': args.tier,
        'seed': seed,
        'level': check.level,
        'coverage': cov,
        'assumptions': list(check.assumptions),
        'wall_s': round(wall, 3),
        'violations': new_violations,
    }
    if not args.no_evidence:
        os.makedirs(os.path.join(VERIF, 'evidence'), exist_ok=True)
        with open(os.path.join(VERIF, 'evidence', f'{check.pid}.json'), 'w') as f:
            json.dump(ev, f, indent=1, default=repr)
    print(f'{check.pid} tier={args.tier} seed={seed} executions={merged.evaluations} nontrivial={merged.nontrivial} '
          f'transitions={merged.transitions} states={len(merged.states)} outcomes={len(merged.outcomes)} '
          f'shards={merged.nshards} caps_hit={caps} wall={wall:.1f}s')
    for k, v in sorted(merged.counters.items()):
        print(f'  {k}={v}')
    for l in lines:
        print(l)
    if harness_error:
        sys.exit(2)
    sys.exit(1 if new_violations else 0)
