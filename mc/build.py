"""Reference ENCODERS, independent of the code under test (no construct, no struct format strings
copied from the repo): kd_buf record, version-2 dump, version-3 dump, kernel-style chunkers."""
import plistlib

U64 = (1 << 64) - 1


def le(v, n):
    return (v & ((1 << (8 * n)) - 1)).to_bytes(n, 'little')


def words(*vals):
    return b''.join(le(v, 8) for v in vals)


def rec(ts=0, args=(0, 0, 0, 0), tid=0, debugid=0, cpuid=0, unused=0, data=None):
    """64-byte kd_buf: ts u64 | 32 arg bytes | tid u64 | debugid u32 | cpuid u32 | unused u64."""
    if data is None:
        data = words(*args)
    assert len(data) == 32
    b = le(ts, 8) + data + le(tid, 8) + le(debugid, 4) + le(cpuid, 4) + le(unused, 8)
    assert len(b) == 64
    return b


def name20(name):
    nb = name if isinstance(name, bytes) else name.encode('utf8')
    assert len(nb) <= 20
    return nb + b'\0' * (20 - len(nb))


def threadmap_entries(threads):
    return b''.join(le(tid, 8) + le(pid, 4) + name20(name) for tid, pid, name in threads)


V2_MAGIC = bytes([0x00, 0x02, 0xaa, 0x55])
V3_MAGIC = bytes([0x00, 0x03, 0xaa, 0x55])


def v2(threads=(), pad=0, records=(), is_64bit=1, tick=24000000, nthreads=None, tod=b'\0' * 12, reserved=b'\0' * 0x100):
    """tod: the 12 bytes between the thread count and the 64-bit word (time of day in real dumps); reserved: the 0x100 bytes before
    the thread map. The parser reads past all of them."""
    n = len(threads) if nthreads is None else nthreads
    assert len(tod) == 12 and len(reserved) == 0x100
    b = V2_MAGIC + le(n, 4) + tod + le(is_64bit, 4) + le(tick, 8) + reserved
    b += threadmap_entries(threads)
    b += b'\0' * pad
    b += b''.join(records)
    return b


def v2_layout(threads=(), pad=0, records=()):
    """byte offsets of the structures of a v2 dump: (records_start, [record offsets], total)."""
    start = 0x120 + 32 * len(threads) + pad
    return start, [start + 64 * i for i in range(len(records))], start + 64 * len(records)


# ---- version 3 ------------------------------------------------------------------------------
STACKSHOT_END = b'stackshot_out_fl'
TAG_THREADMAP = bytes([0x00, 0x1d, 0, 0, 0, 0, 0, 0])
TAG_EVENTS = bytes([0x00, 0x1e, 0, 0, 0, 0, 0, 0])
TAG_MORE_EVENTS = bytes([0x00, 0x20, 0, 0, 0, 0, 0, 0])
TAG_DYLD_MODULES = bytes([0x01, 0x80, 0, 0, 0, 0, 0, 0])
TAG_TRACE_CODES = bytes([0x0f, 0x80, 0, 0, 0, 0, 0, 0])
TAG_PROCESSES = bytes([0x10, 0x80, 0, 0, 0, 0, 0, 0])
TAG_LOG_EVENTS = bytes([0x11, 0x80, 0, 0, 0, 0, 0, 0])
TAG_LOG_STRINGS = bytes([0x12, 0x80, 0, 0, 0, 0, 0, 0])
TAG_KEXTS = bytes([0x05, 0x80, 0, 0, 0, 0, 0, 0])
TAG_IMAGES = bytes([0x04, 0x80, 0, 0, 1, 0, 0, 0])


def pad8(b):
    return b + b'\0' * (-len(b) % 8)


def bplist(obj):
    return plistlib.dumps(obj, fmt=plistlib.FMT_BINARY)


def v3_header(cpu_info=None, numer=125, denom=3, ts=1000, secs=1600000000, usecs=5, mw=0, dst=0, flags=0):
    cpu = bplist({'a': 1} if cpu_info is None else cpu_info)
    h = le(0x1000, 4) + le(0, 4) + le(0, 8) + le(numer, 4) + le(denom, 4) + le(ts, 8) + le(secs, 8) + \
        le(usecs, 4) + le(mw, 4) + le(dst, 4) + le(flags, 4) + le(0x1001, 4)
    h += le(len(cpu), 8) + cpu
    return pad8(h)


def v3_threadmap(threads):
    b = threadmap_entries(threads)
    return TAG_THREADMAP + le(len(b), 8) + b


def v3_event_chunks(chunks, with8=True, gap=b'', more_word=None, unknown8=b'\0' * 8):
    """chunks: list of lists of 64-byte records. A following chunk is announced by MORE_EVENTS;
    `gap` bytes may sit between the MORE_EVENTS tag and the next events tag."""
    out = b''
    for i, recs in enumerate(chunks):
        body = b''.join(recs)
        if i > 0:
            out += TAG_MORE_EVENTS + (le(0, 8) if more_word is None else more_word) + gap
        out += TAG_EVENTS + le(len(body) + (8 if with8 else 0), 8) + unknown8 + body       # unknown8: the 8 bytes nobody interprets
    return out


def v3_block(tag, payload, pad=True):
    b = tag + le(len(payload), 8) + payload
    return pad8(b) if pad else b


def v3(threads=(), chunks=((),), blocks=(), filler1=b'xx', filler2=b'', with8=True, cpu_info=None, gap=b'',
       header_kw=None, more_word=None, unknown8=b'\0' * 8):
    b = V3_MAGIC + v3_header(cpu_info, **(header_kw or {})) + b'\0' * 4
    b += filler1 + STACKSHOT_END + filler2
    b += v3_threadmap(threads)
    b += v3_event_chunks(chunks, with8, gap, more_word, unknown8)
    for blk in blocks:
        b += blk
    return b


def v3_sections(threads=(), chunks=((),), blocks=(), filler1=b'xx', filler2=b'', with8=True, cpu_info=None, gap=b''):
    """Same as v3 but also returns named byte ranges [(name, start, end)] for crash-point bookkeeping."""
    parts = []
    b = b''

    def add(name, data):
        nonlocal b
        parts.append((name, len(b), len(b) + len(data)))
        b += data
    add('magic', V3_MAGIC)
    add('header', v3_header(cpu_info) + b'\0' * 4)
    add('stackshot', filler1 + STACKSHOT_END)
    add('filler2+tmtag', filler2 + TAG_THREADMAP)
    tm = threadmap_entries(threads)
    add('threadmap', le(len(tm), 8) + tm)
    for i, recs in enumerate(chunks):
        if i > 0:
            add(f'more{i}', TAG_MORE_EVENTS + le(0, 8) + gap)
        add(f'evhdr{i}', TAG_EVENTS + le(64 * len(recs) + (8 if with8 else 0), 8) + b'\0' * 8)
        for j, r in enumerate(recs):
            add(f'rec{i}.{j}', r)
    for k, blk in enumerate(blocks):
        add(f'block{k}', blk)
    return b, parts


# ---- kernel-style chunkers --------------------------------------------------------------------
Q_NONE, Q_START, Q_END, Q_ALL = 0, 1, 2, 3


def _chunks(first_header, text_bytes):
    """split header+text into 32-byte payloads the way the kernel does; at least one record."""
    buf = first_header + text_bytes
    n = max(1, -(-len(buf) // 32))
    out = []
    for i in range(n):
        out.append(buf[32 * i:32 * i + 32].ljust(32, b'\0'))
    quals = []
    for i in range(n):
        q = 0
        if i == 0:
            q |= Q_START
        if i == n - 1:
            q |= Q_END
        quals.append(q)
    return list(zip(out, quals))


def lookup_chunks(vnode_id, path):
    """VFS_LOOKUP records for a path: (data32, qualifier) list. 8-byte vnode id then text."""
    pb = path if isinstance(path, bytes) else path.encode('utf8')
    return _chunks(le(vnode_id, 8), pb)


def global_string_chunks(debugid, str_id, text):
    tb = text if isinstance(text, bytes) else text.encode('utf8')
    return _chunks(le(debugid, 8) + le(str_id, 8), tb)


def threadname_chunks(text):
    tb = text if isinstance(text, bytes) else text.encode('utf8')
    return _chunks(b'', tb)
