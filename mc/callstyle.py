"""Parsing of `name(p0, p1, ...) rest` renderings and the set of accepted numeric renderings of a 64-bit word."""
import re

M64 = (1 << 64) - 1
_HEAD = re.compile(r'^([A-Za-z_0-9]+)\(')
NUM = re.compile(r'^(-?\d+|-?0x[0-9a-fA-F]+)(\s*/\*.*\*/)?$')


def split_call(s):
    """'name(a, "b,c", f(x)) rest' -> (name, [tokens], rest) or None."""
    m = _HEAD.match(s)
    if not m:
        return None
    j = m.end()
    depth = 1
    inq = False
    toks = []
    cur = ''
    while j < len(s):
        c = s[j]
        if c == '"':
            inq = not inq
        if not inq:
            if c == '(':
                depth += 1
            elif c == ')':
                depth -= 1
                if depth == 0:
                    break
            elif c == ',' and depth == 1:
                toks.append(cur.strip())
                cur = ''
                j += 1
                continue
        cur += c
        j += 1
    else:
        return None
    if cur.strip() or toks:
        toks.append(cur.strip())
    return m.group(1), toks, s[j + 1:]


def renderings(v):
    v64 = v & M64
    s64 = v64 - (1 << 64) if v64 >> 63 else v64
    u32 = v64 & 0xffffffff
    s32 = u32 - (1 << 32) if u32 >> 31 else u32
    return {str(v64), str(s64), str(u32), str(s32), hex(v64), hex(u32)}


def numeric_token(tok):
    """the literal of an integer-literal token, else None."""
    m = NUM.match(tok)
    return m.group(1).lower() if m else None
