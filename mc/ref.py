"""Reference MODELS (deliberately boring), independent of the code under test."""
import re


def u(b):
    return int.from_bytes(b, 'little')


def ref_decode(b):
    """(timestamp, data, values, tid, debugid, eventid, qualifier) of a 64-byte record."""
    assert len(b) == 64
    ts = u(b[0:8])
    data = bytes(b[8:40])
    vals = (u(b[8:16]), u(b[16:24]), u(b[24:32]), u(b[32:40]))
    tid = u(b[40:48])
    dbg = u(b[48:52])
    return (ts, data, vals, tid, dbg, dbg - (dbg % 4), dbg % 4)


def ref_trace_codes(text):
    """'hex-id name [anything]' lines -> {int: name}; last occurrence wins."""
    out = {}
    # a line ends at LF, CRLF or CR - not at the other characters str.splitlines() also breaks at (VT, FF, FS..US, NEL, LS, PS)
    for line in re.split(r'\r\n|\n|\r', text):
        parts = line.split()
        if len(parts) < 2:
            continue
        h = parts[0]
        if h[:2] in ('0x', '0X'):
            h = h[2:]
        v = 0
        for ch in h:
            v = v * 16 + '0123456789abcdef'.index(ch.lower())
        out[v] = parts[1]
    return out


def thread_tables(threads):
    tp, pn = {}, {}
    for tid, pid, name in threads:
        nb = name if isinstance(name, bytes) else name.encode('utf8')
        nb = nb.split(b'\0')[0]
        tp[tid] = pid
        pn[pid] = nb.decode('utf8')
    return tp, pn
