"""Driving the command-line tool (pykdebugparser.__main__) in-process through click's test runner, on a dump written to a
scratch file that is removed afterwards. Used by the checks whose statement also covers the CLI's filters, counts and columns."""
import os
import tempfile

from click.testing import CliRunner


def run_cli(blob, args, env=None):
    """run `pykdebugparser <args...> <dump>`; returns (exit_code, output_lines, exception or None). env: extra environment variables."""
    from pykdebugparser.__main__ import cli
    fd, path = tempfile.mkstemp(prefix='verif_cli_', suffix='.bin')
    try:
        with os.fdopen(fd, 'wb') as f:
            f.write(blob)
        r = CliRunner().invoke(cli, list(args) + [path], catch_exceptions=True, env=env)
        out = r.output.split('\n')
        if out and out[-1] == '':
            out = out[:-1]
        return r.exit_code, out, r.exception
    finally:
        try:
            os.unlink(path)
        except OSError:
            pass
