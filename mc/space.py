"""Finite spaces and combinators (all deterministic, all complete within their stated bound)."""
import itertools


def seqs(pool, max_len, min_len=0):
    """all sequences over pool of length min_len..max_len, shortest first."""
    for n in range(min_len, max_len + 1):
        yield from itertools.product(pool, repeat=n)


def deviation_bounded(dims, d):
    """dims: list of lists (first element = default). Yields every point with <= d non-default coordinates,
    fewest deviations first."""
    n = len(dims)
    base = [dim[0] for dim in dims]
    for k in range(0, d + 1):
        for idxs in itertools.combinations(range(n), k):
            alts = [dims[i][1:] for i in idxs]
            for combo in itertools.product(*alts):
                p = list(base)
                for i, v in zip(idxs, combo):
                    p[i] = v
                yield tuple(p)


def interleavings(lens):
    """all merges of len(lens) sequences with the given lengths, as tuples of program indices."""
    total = sum(lens)

    def rec(remaining, acc):
        if len(acc) == total:
            yield tuple(acc)
            return
        for i, r in enumerate(remaining):
            if r:
                remaining[i] -= 1
                acc.append(i)
                yield from rec(remaining, acc)
                acc.pop()
                remaining[i] += 1
    yield from rec(list(lens), [])


def compositions(n, k):
    """all ways to write n as an ordered sum of k non-negative integers."""
    if k == 1:
        yield (n,)
        return
    for i in range(n + 1):
        for r in compositions(n - i, k - 1):
            yield (i,) + r


def subsets(items):
    items = list(items)
    for k in range(len(items) + 1):
        yield from itertools.combinations(items, k)


def chunked(seq, n):
    seq = list(seq)
    size = max(1, -(-len(seq) // n))
    return [seq[i:i + size] for i in range(0, len(seq), size)]
