"""Event helpers for driving the trace layer: the bundled code table parsed independently,
name->id map, Kevent construction."""
import os
from pykdebugparser.kevent import Kevent
from mc.build import words
from mc.ref import ref_trace_codes

REPO = os.environ.get('VERIF_REPO', '/repo')
_TC = None


def codes():
    global _TC
    if _TC is None:
        with open(os.path.join(REPO, 'pykdebugparser', 'trace.codes')) as f:
            _TC = ref_trace_codes(f.read())
    return _TC


_N2I = None


def n2i(name):
    global _N2I
    if _N2I is None:
        _N2I = {}
        for k, v in codes().items():
            _N2I[v] = k  # last id wins (same as a dict inversion)
    return _N2I[name]


def ev(code, q, vals=(0, 0, 0, 0), tid=1, ts=0, data=None):
    """Kevent for an event id (int) or name (str)."""
    eid = n2i(code) if isinstance(code, str) else code
    if data is None:
        vals = tuple(v & 0xffffffffffffffff for v in vals)
        data = words(*vals)
    else:
        vals = tuple(int.from_bytes(data[i:i + 8], 'little') for i in (0, 8, 16, 24))
    return Kevent(ts, data, vals, tid, eid | q, eid, q)


def restamp(events):
    """give events strictly increasing timestamps = stream positions."""
    return [e._replace(timestamp=i) for i, e in enumerate(events)]


class UnstableRendering(Exception):
    """str(trace) gave two different texts on two consecutive uses of the same trace object."""


def stable_str(t):
    a = str(t)
    b = str(t)
    if a != b:
        raise UnstableRendering(f'first use {a!r}, second use {b!r}')
    return a


PREFILLED_TP = {1: 10, 2: 20, 3: 30}
PREFILLED_PN = {10: 'p10', 20: 'p20', 30: 'p30'}


def new_traces_parser(prefilled=False):
    """fresh real TracesParser; prefilled=True hands it a thread map that is already populated at construction (as on the
    second request of a PyKdebugParser object)."""
    from pykdebugparser.traces_parser import TracesParser
    if prefilled:
        return TracesParser(codes(), dict(PREFILLED_TP), dict(PREFILLED_PN))
    return TracesParser(codes(), {}, {})
