#!/usr/bin/env python3
"""Regenerate MANIFEST.json from the table below (single source of truth for what is claimed)."""
import json, os
VERIF = os.path.dirname(os.path.dirname(os.path.abspath(__file__)))
BASELINE = "cd /repo && /venv/bin/python -m pytest -ra -q -p no:cacheprovider --timeout=900 --continue-on-collection-errors"

CHECKS = {
 'C05': dict(level='model_checking',
   text='Schedules are merge orders of per-thread event programs; every ordered pair and triple of 13 programs and EVERY interleaving (quick: about 200k schedules; thorough: tens of millions) is fed to a fresh real TracesParser; per-thread projections and learned tables must equal the solo runs. The library has no real threads, so the explorer is the scheduler.',
   note='Trusted: program library in checks/c05.py (programs whose text depends only on the thread\'s own records).',
   technique='exhaustive enumeration of all interleavings of 2-3 per-thread programs on the real parser, differential against solo runs'),
 'C08': dict(level='model_checking',
   text='Texts of every byte length 0..184 x 3 content patterns chunked kernel-style, stand-alone and inside each of the 66 path-taking decoders with k lookups and unrelated records in every gap; exactly one trace with exactly the text, path slots equal lookups in order.',
   note='Trusted: kernel chunkers in mc/build.py and the frozen slot table mc/pathslots.json.',
   technique='exhaustive enumeration of text lengths/boundary shapes x decoders on the real TracesParser'),
 'C11': dict(level='exploration',
   text='Every subset of the declared bits (+2 undeclared) of each flag family, every value of each multi-bit field, both 16-bit halves of the ioctl word, read back from the rendering of a decoder that shows the family and compared with Darwin values.',
   note='Trusted: mc/darwin.py transcription of the Darwin headers.',
   technique='exhaustive enumeration of flag-word subsets and field values against Darwin constant tables'),
 'C13': dict(level='model_checking',
   text='Streams of complete operations x all tid/process/class/subclass filter configurations (commutation with the unfiltered listing), and all request histories of length <=3 on one parser object (repeatability, no residue in the caller\'s settings, list and tuple typed).',
   note='Trusted: reference predicate "first event satisfies the filter"; K3 (image lists persist across callstacks requests) is a known finding.',
   technique='exhaustive configuration x request-history enumeration on the real facade, differential against fresh objects'),
 'C14': dict(level='model_checking',
   text='All 2^6 column switch settings x colour x all streams of <=2/3 items over an alphabet with map-updating records x thread maps: column composition, colour invariance, and the process column against a reference table evolution.',
   note='Trusted: table-evolution model in checks/c14.py.',
   technique='exhaustive configuration x history enumeration on the real formatter with a reference table model'),
 'C15': dict(level='model_checking',
   text='All histories of <=3/4 items over image announcements, launch windows and samples (31 item kinds) through TracesParser+CallstacksParser and the facade, plus all announcement permutations of <=4 images, against a linear-scan reference.',
   note='Trusted: linear-scan reference in checks/c15.py.',
   technique='exhaustive history enumeration on the real parsers with a linear-scan reference model'),
 'C16': dict(level='exploration',
   text='Optional-key subsets (<=2/3 present, <=2/3 absent, full products over string and loss keys), timestamp corners, decomposed-message shapes, every defined trace-identifier word, decoded directly and inside a v3 dump, against an independent field map.',
   note='Trusted: key->field map and firehose id layout transcribed in checks/c16.py. 2^31 subsets are not enumerable.',
   technique='bounded exhaustive enumeration of key subsets / identifier words against a reference decoder'),
 'C18': dict(level='model_checking',
   text='13 host configurations (real + Darwin/FreeBSD-like/empty tables, one seam at a time and all together) x every BSD decoder x error codes 0..255, signals, families x types, socket options: text must not change; plus a static scan of imports for unmodelled host-dependent modules. The 7 known host-table call sites are KNOWN-FINDINGs; anything else is a violation.',
   note='Trusted: host model = the three interpreter tables bsd.py imports + import scan.',
   technique='exhaustive configuration enumeration (host table substitution) on the real decoders, differential across configurations'),
 'C19': dict(level='exploration',
   text='All code-table texts of <=3 lines over a line grammar against an independent parser; 101 supplied tables (single edits of the bundled one) x operation streams: listing names from the supplied table, decoding equal to decoding of the id-renamed stream under the bundled table.',
   note='Trusted: independent parser mc/ref.py; metamorphic reference is the tool itself on the renamed stream.',
   technique='exhaustive enumeration of table texts and table edits x streams, metamorphic differential'),
 'C20': dict(level='model_checking',
   text='All nested sequences (<=3/4) of relevant and unrelated records in page-fault, launch and sampler windows x END results, fault types, protection bytes, flag sets, header counts; fields compared with the statement\'s rules.',
   note='Trusted: oracle transcribed from the statement in checks/c20.py.',
   technique='exhaustive enumeration of window contents on the real TracesParser with a reference oracle'),
 'C07': dict(level='fault_enumeration',
   text='For each of the 469 registered decoders: full-context windows of individually in-domain events, with every subset of the window dropped, every single duplication, every insertion of an undecoded/unrelated record, lone NONE/ALL, 3- and 6-lookup windows with every dropped prefix, every enum member; thorough adds nesting/crossing with 8 composite outer windows and more word sets. The real pipeline must consume each history and render every trace.',
   note='Trusted: frozen in-domain table mc/domains.json (generated once at the pinned commit by trial decoding, reviewed). Only omission/duplication/insertion faults of the stated windows are covered.',
   technique='exhaustive omission/duplication/insertion fault enumeration over per-decoder context windows on the real TracesParser'),
 'C09': dict(level='exploration',
   text='Complete product of per-position START word domains (numeric corner values; every enum member) x END tuples x lookups for each of the ~400 call-style decoders; every numeric token must render its own START word in every run, so a decoder printing another word fails in the runs where the words differ.',
   note='Trusted: rendering set and token parser in mc/callstyle.py; symbolic tokens are not judged.',
   technique='exhaustive enumeration of bounded argument products against a positional rendering oracle'),
 'C10': dict(level='exploration',
   text='Every non-exempt BSD decoder x 1380 END tuples (all errno values 1..106, unknown/huge codes, return-word corners) x START tuples x lookups; errno precedence, exact code, success values from the END record only, call part independent of END, result part independent of START.',
   note='Trusted: exempt list transcribed from the statement; error names are C18 business.',
   technique='exhaustive enumeration of END-record products per decoder with a textual result oracle'),
 'C17': dict(level='exploration',
   text='The decoder tables and the bundled code table are finite: enumerated completely (name occurs, qualifier bits clear, families disjoint, every _nocancel has its base); each twin pair is compared over the C09 product of argument tuples.',
   note='Trusted: independent code-table parser mc/ref.py.',
   technique='complete table enumeration plus exhaustive twin-pair differential over bounded argument products'),
 'C01': dict(level='exploration',
   text='from_kd_buf is a pure function of 64 bytes; the check enumerates completely the Hamming ball of radius 2 around base records, every value of every byte, every 16-bit value of each debug-id half, and all decode orders of <=3 over a pool of records sharing sub-fields, judging each against an independent slicing decoder and the algebraic clauses. 2^512 is not enumerable, so this is bounded exhaustive exploration of stated shapes.',
   note='Trusted: mc/ref.py:ref_decode. Values outside the enumerated shapes are not covered.',
   technique='bounded exhaustive input enumeration (Hamming balls, byte sweeps, decode-order histories) against a reference decoder'),
 'C02': dict(level='model_checking',
   text='Version-2 dumps from an independent writer: full product of thread maps x padding lengths x record sequences x both entry points, plus all histories of <=3 parses through the same table objects in 4 reuse modes; every parse judged against the independent decode and the file map. States are table contents, transitions are parses.',
   note='Trusted: mc/build.py v2 writer (cross-checked against the suite\'s hand-built file). Known finding K1 (greedy pad) is reported as KNOWN-FINDING.',
   technique='explicit enumeration of dump shapes and parse histories on the real parser with a reference model'),
 'C03': dict(level='model_checking',
   text='Version-3 dumps from an independent writer: full product of header alignment residues x sentinel fillers x chunk compositions x size conventions, and all sequences of <=3 (quick) / <=4 (thorough) metadata/log blocks x string-index positions x thread maps x MORE_EVENTS gaps; every dump parsed by the real KdBufParser and compared with the reference expectations.',
   note='Trusted: the v3 writer is a frozen transcription of the layout (no sample v3 file in the repository).',
   technique='explicit enumeration of container layouts and block sequences on the real parser with a reference model'),
 'C06': dict(level='fault_enumeration',
   text='Every truncation offset of 9 base dumps x 5 consumers through a counting reader with a read budget and watchdog, plus every output-count limit: termination, prefix, no fabrication, no retroactive change.',
   note='Trusted: base dumps and their record ranges from mc/build.py. Progress is not demanded, only prefix-ness.',
   technique='exhaustive crash-point (truncation offset) enumeration on the real parsing pipeline'),
 'C12': dict(level='model_checking',
   text='All record/log streams up to a small length x the complete product of filter configurations; each listing compared with a reference comprehension over the independent decode.',
   note='Trusted: reference filter semantics transcribed from the statement; containers from mc/build.py.',
   technique='exhaustive configuration x history enumeration on the real facade with a reference filter'),
 'C04': dict(level='model_checking',
   text='Every event history up to depth 4 (quick: about 4M maximal histories over ten alphabets; thorough: depth 5 on 40 symbols = 102M, depth 6 on a 16-symbol core) is fed to a fresh real TracesParser - through feed() and through feed_generator, with empty and with pre-populated thread maps - with a reference model of the statement in lockstep; every step of every history is judged; plus long windows (64..20 000 records, own and foreign threads). Pairing is finite-state per (thread, code), so bounded-depth exhaustive history enumeration is the natural level.',
   note='Trusted: the reference model in checks/c04.py; Kevent objects are constructed directly (container layer is C01-C03). Depth bound as stated; codes limited to the alphabet.',
   technique='explicit-state exhaustive enumeration of operation histories on the real TracesParser, lockstep reference model'),
}
NOT_BUILT_REASON = 'check not built yet in this session (work in progress; see DESIGN.md section 4 for the planned exhaustive exploration)'

def main():
    props = [json.loads(l)['id'] for l in open(os.path.join(VERIF, 'properties.jsonl'))]
    checks = []
    for pid in props:
        if pid not in CHECKS: continue
        c = CHECKS[pid]
        checks.append({
            'property_id': pid,
            'quick_cmd': f'./check {pid} --tier quick',
            'thorough_cmd': f'./check {pid} --tier thorough',
            'evidence_file': f'/verif/evidence/{pid}.json',
            'replay_cmd_template': f'./check {pid} --replay {{path}}',
            'engine': 'mc-explorer',
            'level_claimed': {'category': c['level'], 'text': c['text'], 'design_ref': f'DESIGN.md section 4, {pid}'},
            'level_note': c['note'],
            'technique': c['technique'],
        })
    man = {
        'version': 1,
        'setup_cmd': 'cd /verif && ./setup.sh',
        'hooks': {
            'guard': 'PYKDEBUGPARSER_VERIF',
            'enable': 'no source hooks are needed: every observation point is a public entry point or attribute; ./check exports PYKDEBUGPARSER_VERIF=1 for completeness and imports /repo via PYTHONPATH',
            'baseline_off_cmd': BASELINE,
            'source_commits': [],
            'add_only': True,
        },
        'engines': [{'name': 'mc-explorer', 'path': '/verif/mc', 'serves_properties': sorted(CHECKS),
                     'kind_free_text': 'hand-written bounded exhaustive explorer for Python: enumerates finite spaces (histories, interleavings, truncation offsets, configurations, input shapes) completely, runs each on fresh real objects with a reference model in lockstep, sharded over 16 forked workers'}],
        'checks': checks,
        'not_applicable': [{'property_id': p, 'reason': NOT_BUILT_REASON} for p in props if p not in CHECKS],
        'notes': 'See DESIGN.md (section 4 per-property design, 5 defects and fixes, 6 detection campaign). known_findings.json lists genuine defects (known / fixed). seeded/ holds 120 sub-agent regressions with demonstrations; mutants/ the own mutant campaign.',
    }
    with open(os.path.join(VERIF, 'MANIFEST.json'), 'w') as f:
        json.dump(man, f, indent=1)
    print('wrote MANIFEST.json with', len(checks), 'checks')
main()
