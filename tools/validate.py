#!/usr/bin/env python3-vt
"""Validate MANIFEST.json and every evidence file against the harness schemas (needs jsonschema: run with python3-vt)."""
import json, sys, glob, jsonschema
ms = json.load(open('/root/.vp/MANIFEST.schema.json')); es = json.load(open('/root/.vp/EVIDENCE.schema.json'))
man = json.load(open('/verif/MANIFEST.json')); jsonschema.validate(man, ms)
ok = True
for c in man['checks']:
    try:
        ev = json.load(open(c['evidence_file'])); jsonschema.validate(ev, es)
        assert ev['level'] == c['level_claimed']['category'], 'level mismatch'
        cov = ev['coverage']
        print(c['property_id'], ev['tier'], ev['level'], 'evals', cov['evaluations'], 'nontrivial', cov['distinct_nontrivial'], 'states', cov.get('states'),
              'viol', ev['violations'], 'known', [k['signature'] for k in cov['known_findings_seen']][:2], f"{ev['wall_s']}s")
    except Exception as e:
        ok = False; print('INVALID', c['property_id'], repr(e)[:300])
props = [json.loads(l)['id'] for l in open('/verif/properties.jsonl')]
claimed = {c['property_id'] for c in man['checks']} | {n['property_id'] for n in man.get('not_applicable', [])}
assert set(props) == claimed, set(props) ^ claimed
print('OK' if ok else 'FAILED'); sys.exit(0 if ok else 1)
