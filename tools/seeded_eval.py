#!/usr/bin/env python3
"""Evaluate one sub-agent change: usage seeded_eval.py <Cnn> <k> [tier] [extra check ids...]
Confirms (scratch copy of /repo + patch): suite passes, demo fails with the change and passes without; runs the property's
check (and extras) against the patched copy; stores /verif/seeded/<Cnn>-<k>/{patch.diff, demo.py, meta.json}."""
import json, os, shutil, subprocess, sys, tempfile
if sys.argv[1] == '--stored':
    # re-evaluate a change already stored under /verif/seeded/<Cnn>-<n>
    pid, k = sys.argv[2].split('-')
    os.environ['SEED_OFFSET'] = '0'
    sys.argv = [sys.argv[0], pid, k] + sys.argv[3:]
    STORED = True
else:
    STORED = False
pid, k = sys.argv[1], sys.argv[2]
tier = sys.argv[3] if len(sys.argv) > 3 else 'quick'
extra = sys.argv[4:]
wt = f'/tmp/wt_{pid}'
src = {n: f'{wt}/seeded_{k}{s}' for n, s in (('patch', '.diff'), ('demo', '_demo.py'), ('meta', '_meta.txt'))}
dst = f"/verif/seeded/{pid}-{int(k) + int(os.environ.get('SEED_OFFSET', 0))}"
if STORED:
    src = {'patch': f'{dst}/patch.diff', 'demo': f'{dst}/demo.py', 'meta': None}
d = tempfile.mkdtemp(prefix='seed_', dir='/tmp')
try:
    subprocess.check_call(['rsync', '-a', '--exclude', '.git', '--exclude', '__pycache__', '/repo/', d + '/'])
    env = dict(os.environ, PYTHONPATH=d, PYTHONDONTWRITEBYTECODE='1')
    # demos may name their worktree explicitly: run a copy that points at the scratch copy instead
    demo_txt = open(src['demo']).read().replace(wt, d).replace('/repo', d)
    src_demo_orig = src['demo']
    src['demo'] = os.path.join(d, '_seeded_demo.py')
    open(src['demo'], 'w').write(demo_txt)
    demo_clean = subprocess.run(['/venv/bin/python', src['demo']], cwd=d, env=env, capture_output=True, text=True)
    ap = subprocess.run(['patch', '-p1', '-s', '-i', src['patch']], cwd=d, capture_output=True, text=True)
    if ap.returncode:
        print('PATCH-FAILED', ap.stdout, ap.stderr); sys.exit(3)
    suite = subprocess.run(['/venv/bin/python', '-m', 'pytest', '-q', '-p', 'no:cacheprovider', '-x'], cwd=d, capture_output=True, text=True)
    demo_mut = subprocess.run(['/venv/bin/python', src['demo']], cwd=d, env=env, capture_output=True, text=True)
    res = {}
    for cid in [pid] + extra:
        p = subprocess.run(['/verif/check', cid, '--tier', tier, '--no-evidence'], env=dict(os.environ, VERIF_REPO=d, VERIF_REPLAY_DIR=os.path.join(d, '_replays')), capture_output=True, text=True)
        sigs = [l.strip() for l in p.stdout.splitlines() if l.strip().startswith('signature=')]
        res[cid] = {'exit': p.returncode, 'violation_lines': sum(1 for l in p.stdout.splitlines() if l.startswith('VIOLATION')),
                    'signatures': [s[:200] for s in sigs[:3]]}
        if p.returncode not in (0, 1):
            res[cid]['output_tail'] = p.stdout[-800:] + p.stderr[-400:]
    valid = suite.returncode == 0 and demo_mut.returncode != 0 and demo_clean.returncode == 0
    meta = {'property': pid, 'index': int(k) + int(os.environ.get('SEED_OFFSET', 0)), 'suite_passes_with_change': suite.returncode == 0,
            'demo_exit_with_change': demo_mut.returncode, 'demo_exit_without_change': demo_clean.returncode, 'valid_seed': valid,
            'needs': open(src['meta']).read() if src['meta'] and os.path.exists(src['meta']) else json.load(open(f'{dst}/meta.json')).get('needs', ''),
            'ran': f'scratch copy of /repo + patch; pytest; demo with/without; ./check {" ".join([pid] + extra)} --tier {tier} with VERIF_REPO=<copy>',
            'checks': res, 'caught_by': sorted(c for c, r in res.items() if r['exit'] == 1 and r['violation_lines'] > 0)}
    os.makedirs(dst, exist_ok=True)
    if src['patch'] != f'{dst}/patch.diff':
        shutil.copy(src['patch'], f'{dst}/patch.diff'); shutil.copy(src_demo_orig, f'{dst}/demo.py')
    # a note written by hand (documented non-detection) survives a re-evaluation as long as the seed is still not caught
    try:
        old_note = json.load(open(f'{dst}/meta.json')).get('note')
    except Exception:
        old_note = None
    if old_note and not meta.get('caught_by') and not meta.get('note'):
        meta['note'] = old_note
    json.dump(meta, open(f'{dst}/meta.json', 'w'), indent=1)
    print(pid, k, 'valid' if valid else f'INVALID(suite={suite.returncode},demo_with={demo_mut.returncode},demo_without={demo_clean.returncode})',
          {c: (r['exit'], r['signatures'][:1]) for c, r in res.items()})
    if demo_mut.returncode != 0:
        print('   demo says:', (demo_mut.stdout + demo_mut.stderr).strip().splitlines()[-1][:300] if (demo_mut.stdout + demo_mut.stderr).strip() else '')
finally:
    shutil.rmtree(d, ignore_errors=True)
