#!/usr/bin/env python3
"""Rewrite seeded/RESULTS.md from the meta.json files of the stored sub-agent changes."""
import json
import os
import re

ROOT = os.path.join(os.path.dirname(os.path.abspath(__file__)), '..', 'seeded')


def key(d):
    m = re.match(r'C(\d+)-(\d+)$', d)
    return int(m.group(1)), int(m.group(2))


def main():
    rows = []
    for d in sorted((x for x in os.listdir(ROOT) if re.match(r'C\d+-\d+$', x)), key=key):
        with open(os.path.join(ROOT, d, 'meta.json')) as f:
            m = json.load(f)
        caught = ','.join(m.get('caught_by') or []) or ('- (see note)' if m.get('note') else '-')
        needs = (m.get('needs') or '').replace('\n', ' ').replace('|', '/')[:200]
        note = (' NOTE: ' + m['note'].replace('\n', ' ').replace('|', '/')[:200]) if m.get('note') else ''
        rows.append(f"| {d} | {m.get('valid_seed')} | {caught} | {needs}{note} |")
    with open(os.path.join(ROOT, 'RESULTS.md'), 'w') as f:
        f.write('# Sub-agent seeded changes (each: patch.diff, demo.py, meta.json). All kept the 69-test suite green; demo fails '
                'with / passes without (at the time of writing).\n\n| seed | valid now | caught by (quick) | what it needs |\n|---|---|---|---|\n')
        f.write('\n'.join(rows) + '\n')
    print(len(rows), 'rows')


if __name__ == '__main__':
    main()
