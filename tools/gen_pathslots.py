#!/venv/bin/python
"""One-off generator for mc/pathslots.json: which decoders show looked-up paths and in how many quoted slots
(observed with 0,1,2,3,6 distinct lookups at the pinned commit + fixes; reviewed; never run by checks)."""
import json, re, sys
sys.path.insert(0, '/verif'); sys.path.insert(0, '/repo')
from mc import ev as E, domains as D, build as B
from pykdebugparser.traces_parser import TracesParser
def lk(i): return [E.ev('VFS_LOOKUP', q, data=d) for d, q in B.lookup_chunks(100 + i, f'/p{i}')]
out = {}
for name in D.decoder_names():
    if not name.startswith('BSC_'): continue
    row = []
    for k in (0, 1, 2, 3, 6):
        s, e = D.in_domain(name, 'se', (0x1111, 0x2222, 0x3333, 0x4444), (0, 0x55, 0x66, 0x77), 1)
        evs = [E.ev(name, 1, s)] + sum([lk(i) for i in range(k)], []) + [E.ev(name, 2, e)]
        p = TracesParser(E.codes(), {}, {})
        o = [t for t in p.feed_generator(E.restamp(evs)) if t.ktraces[0].eventid == evs[0].eventid]
        row.append(re.findall(r'"([^"]*)"', str(o[-1])))
    if not any(row): continue
    if row == [[''], ['/p0'], ['/p0'], ['/p0'], ['/p0']]: kind = 'one'
    elif row == [['', ''], ['/p0', ''], ['/p0', '/p1'], ['/p0', '/p1'], ['/p0', '/p1']]: kind = 'two'
    else: kind = 'special'
    out[name] = kind
json.dump(out, open('/verif/mc/pathslots.json', 'w'), indent=1, sort_keys=True)
print({k: sum(1 for v in out.values() if v == k) for k in ('one', 'two', 'special')}, [n for n, v in out.items() if v == 'special'])
