#!/usr/bin/env python3
"""Carry stored seeded changes over to the current /repo HEAD when a later fix touched the same lines.
For every seeded/<id>/patch.diff that no longer applies cleanly: try `git apply --3way` in a scratch worktree of /repo;
on success the merged change becomes patch.diff and the agent's original is kept as patch_as_written.diff.
Conflicts are listed for manual carrying-over."""
import glob
import os
import shutil
import subprocess
import sys
import tempfile

ROOT = os.path.join(os.path.dirname(os.path.abspath(__file__)), '..', 'seeded')


def sh(*a, **k):
    return subprocess.run(a, capture_output=True, text=True, **k)


def main():
    wt = tempfile.mkdtemp(prefix='seedwt_')
    os.rmdir(wt)
    assert sh('git', '-C', '/repo', 'worktree', 'add', '--detach', wt, 'HEAD').returncode == 0
    todo = []
    try:
        for d in sorted(glob.glob(os.path.join(ROOT, 'C*-*'))):
            p = os.path.join(d, 'patch.diff')
            if sh('git', '-C', wt, 'apply', '--check', p).returncode == 0:
                continue
            sh('git', '-C', wt, 'checkout', '--', '.')
            sh('git', '-C', wt, 'clean', '-fdq')
            r = sh('git', '-C', wt, 'apply', '--3way', p)
            conflict = r.returncode != 0 or 'with conflicts' in (r.stdout + r.stderr)
            if not conflict:
                merged = sh('git', '-C', wt, 'diff', 'HEAD').stdout
                keep = os.path.join(d, 'patch_as_written.diff')
                if not os.path.exists(keep) and not os.path.exists(os.path.join(d, 'patch_as_written_before_F21.diff')):
                    shutil.copy(p, keep)
                open(p, 'w').write(merged)
                print('carried over', os.path.basename(d))
            else:
                print('CONFLICT', os.path.basename(d), (r.stderr or r.stdout).strip().splitlines()[-1:])
                todo.append(os.path.basename(d))
            sh('git', '-C', wt, 'reset', '-q', '--hard', 'HEAD')
    finally:
        sh('git', '-C', '/repo', 'worktree', 'remove', '--force', wt)
    print('manual:', todo)


if __name__ == '__main__':
    main()
