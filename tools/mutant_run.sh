#!/bin/bash
# usage: tools/mutant_run.sh <patch.diff> <tier> <check id>...   (runs suite + checks against a scratch copy)
# prints: SUITE=<pass|fail>  and per check: <id> exit=<n>
patch="$1"; tier="$2"; shift 2
d=$(mktemp -d /tmp/mut_XXXXXX)
trap 'rm -rf "$d"' EXIT
rsync -a --exclude .git --exclude __pycache__ /repo/ "$d/"
( cd "$d" && patch -p1 -s < "$patch" ) || { echo "PATCH-FAILED"; exit 3; }
if [ -z "${SKIP_SUITE:-}" ]; then
  if ( cd "$d" && /venv/bin/python -m pytest -q -p no:cacheprovider -x >/dev/null 2>&1 ); then echo "SUITE=pass"; else echo "SUITE=fail"; fi
fi
for id in "$@"; do
  out=$(VERIF_REPO="$d" VERIF_REPLAY_DIR="$d/_replays" /verif/check "$id" --tier "$tier" --no-evidence 2>&1); rc=$?
  echo "$id exit=$rc $(echo "$out" | grep -c '^VIOLATION') violation line(s)"
  echo "$out" | grep -E '^(VIOLATION|  signature|HARNESS|KNOWN)' | head -${SHOW:-4} | cut -c1-300
done
