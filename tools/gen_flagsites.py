#!/venv/bin/python
"""One-off generator for mc/flagsites.json: every (decoder, START word position) at which a flag family's names are shown,
found at the pinned commit (+fixes) by setting that word to the family's declared bits. Reviewed and committed; never run by
checks (a change that moves a site must not move the oracle with it)."""
import json, re, sys
sys.path.insert(0, '/verif'); sys.path.insert(0, '/repo')
from mc import ev as E, domains as D, darwin as DW
from pykdebugparser.traces_parser import TracesParser
FAM = {'OPEN': (DW.OPEN_FLAGS, r'\bO_(?!RDONLY|WRONLY|RDWR|ACCMODE)[A-Z_]+\b'), 'STAT': ({**DW.MODE_BITS}, r'\bS_I[A-Z]+\b'), 'MSG': (DW.MSG, r'\bMSG_[A-Z0-9_]+\b'),
       'LOCK': (DW.LOCK, r'\bLOCK_[A-Z]+\b'), 'CHFLAGS': (DW.CHFLAGS, r'\b[US]F_[A-Z]+\b'), 'ACCESS': (DW.ACCESS, r'\b[XWR]_OK\b'),
       'VM_PROT': (DW.VM_PROT, r'\bVM_PROT_[A-Z_]+\b'), 'AST': (DW.AST, r'\bAST_[A-Z_]+\b'), 'TH': (DW.TH, r'\bTH_[A-Z0-9_]+\b'),
       'SAMPLER': (DW.SAMPLER, r'\bSAMPLER_[A-Z_]+\b'), 'KPERF_TI': (DW.KPERF_TI, r'\bKPERF_TI_[A-Z]+\b'), 'CALLSTACK': (DW.CALLSTACK, r'\bCALLSTACK_[A-Z0-9_]+\b'),
       'RTLD': (DW.RTLD, r'\bRTLD_[A-Z]+\b')}
out = []
for name in D.decoder_names():
    for shape in ('se', 'single'):
        for base in ((0x1111, 0x2222, 0x3333, 0x4444), (0x200, 0x200, 0x200, 0x200)):
            s0, e0 = D.in_domain(name, shape, base, (0, 0x55, 0x66, 0x77), 1)
            en = D.enums(name, shape)
            for k in range(4):
                if f's{k}' in en: continue
                for fam, (table, rx) in FAM.items():
                    allbits = 0
                    for v in table.values(): allbits |= v
                    for shift in (0, 8):
                        def show(val):
                            s = list(s0); s[k] = val & 0xffffffffffffffff
                            evs = [E.ev(name, 1, s), E.ev(name, 2, e0)] if shape == 'se' else [E.ev(name, 0, s)]
                            try:
                                t = [t for t in TracesParser(E.codes(), {}, {}).feed_generator(E.restamp(evs)) if t.ktraces[0].eventid == evs[0].eventid]
                                return set(re.findall(rx, str(t[-1]))) if t else set()
                            except Exception:
                                return None
                        a, z = show(allbits << shift), show(0)
                        if a is None or z is None:
                            continue
                        shown = a - z
                        if len(shown) >= 2:
                            rec = {'decoder': name, 'shape': shape, 'word': k, 'shift': shift, 'family': fam, 'base': [hex(x) for x in s0]}
                            if not any(r['decoder'] == name and r['shape'] == shape and r['word'] == k and r['family'] == fam and r['shift'] == shift for r in out):
                                out.append(rec)
json.dump(out, open('/verif/mc/flagsites.json', 'w'), indent=1)
from collections import Counter
print(len(out), Counter(r['family'] for r in out))
for r in out: print(r['decoder'], r['shape'], r['word'], r['shift'], r['family'])
