#!/venv/bin/python
"""One-off generator for mc/domains.json (run at the pinned commit, output reviewed and committed; never run by checks).

For every registered decoder and each window shape (START+END pair, single event) it discovers which START/END words are
enum-valued by trial decoding from several junk bases: a `V is not a valid E` ValueError names the enum E; the word whose
(sub-field) value is V is located; the position is recorded with its extraction and the enum's member values, replaced by a
valid member, and decoding is retried."""
import enum
import json
import os
import re
import socket
import signal
import sys

sys.path.insert(0, '/verif')
sys.path.insert(0, os.environ.get('VERIF_REPO', '/repo'))
from mc import ev as E
from pykdebugparser.traces_parser import TracesParser
from pykdebugparser.trace_handlers import bsd, mach, dyld, perf, trace, turnstile, fsystem

MODS = {'bsd': bsd, 'mach': mach, 'dyld': dyld, 'perf': perf, 'trace': trace, 'turnstile': turnstile, 'fsystem': fsystem,
        'socket': socket, 'signal': signal}
EXTRACT = {
    'whole': (lambda w: w, lambda w, v: v),
    'low8': (lambda w: w & 0xff, lambda w, v: (w & ~0xff) | v),
    'low16': (lambda w: w & 0xffff, lambda w, v: (w & ~0xffff) | v),
    'low32': (lambda w: w & 0xffffffff, lambda w, v: (w & ~0xffffffff) | v),
    'b1': (lambda w: (w >> 8) & 0xff, lambda w, v: (w & ~0xff00) | (v << 8)),
    'hi16of32': (lambda w: (w >> 16) & 0xffff, lambda w, v: (w & ~0xffff0000) | (v << 16)),
    'hi32': (lambda w: w >> 32, lambda w, v: (w & 0xffffffff) | (v << 32)),
    'i32': (lambda w: (w & 0xffffffff) - (1 << 32) if w & 0x80000000 else w & 0xffffffff, lambda w, v: v & 0xffffffff),
    'i64': (lambda w: w - (1 << 64) if w >> 63 else w, lambda w, v: v & 0xffffffffffffffff),
}
BASES = [
    ([0x1a2b3c4d5e6f7081, 0x2b3c4d5e6f708192, 0x3c4d5e6f708192a3, 0x4d5e6f708192a3b4],
     [0, 0x5e6f708192a3b4c5, 0x6f708192a3b4c5d6, 0x708192a3b4c5d6e7]),
    ([0x9191, 0x9292, 0x9393, 0x9494], [0, 0x9595, 0x9696, 0x9797]),
    ([0, 0, 0, 0], [0, 0, 0, 0]),
    ([0xf1, 0xf2, 0xf3, 0xf4], [0, 0xf5, 0xf6, 0xf7]),
    ([0x11a1, 0x12a2, 0x13a3, 0x14a4], [0x15a5, 0x16a6, 0x17a7, 0x18a8]),
    ([0x21, 0x22, 0x23, 0x24], [0x25, 0x26, 0x27, 0x28]),
    ([0xfffffffffffffff1, 0xfffffffffffffff2, 0xfffffffffffffff3, 0xfffffffffffffff4], [0, 0xfffffffffffffff5, 0xfffffffffffffff6, 0xfffffffffffffff7]),
]


def find_enum(name):
    for mn, m in MODS.items():
        c = getattr(m, name, None)
        if isinstance(c, type) and issubclass(c, enum.Enum):
            return mn, c
    return None, None


def shape_events(name, shape, s, e):
    if shape == 'se':
        return [E.ev(name, 1, s, ts=1), E.ev(name, 2, e, ts=2)]
    return [E.ev(name, 0, s, ts=1)]


def discover(tc, name, shape):
    found = {}
    problems = []
    for bs, be in BASES:
        s, e = list(bs), list(be)
        # apply what is already known
        for key, spec in found.items():
            arr = s if key[0] == 's' else e
            k = int(key[1])
            arr[k] = EXTRACT[spec['extract']][1](arr[k], spec['values'][len(spec['values']) // 2]) & 0xffffffffffffffff
        for _ in range(12):
            p = TracesParser(tc, {}, {})
            try:
                out = list(p.feed_generator(shape_events(name, shape, s, e)))
                for o in out:
                    str(o)
                break
            except ValueError as ex:
                m = re.match(r"(-?\d+) is not a valid (\w+)", str(ex))
                if not m:
                    problems.append(f'{type(ex).__name__}: {ex}')
                    break
                val = int(m.group(1))
                mn, En = find_enum(m.group(2))
                if En is None:
                    problems.append(f'unknown enum {m.group(2)}')
                    break
                hit = None
                arrs = [('s', s)] + ([('e', e)] if shape == 'se' else [])
                cands = []
                for exn in EXTRACT:
                    for an, arr in arrs:
                        for k in range(4):
                            if f'{an}{k}' in found:
                                continue
                            if EXTRACT[exn][0](arr[k]) == val:
                                cands.append((an, k, exn))
                    if cands:
                        break
                # disambiguate by perturbation: changing the right word changes (or removes) the complaint
                for an, k, exn in cands:
                    arr = s if an == 's' else e
                    old = arr[k]
                    arr[k] = EXTRACT[exn][1](old, (val + 0x5b) & 0xff if exn in ('low8', 'b1') else val + 0x5b5b) & 0xffffffffffffffff
                    p2 = TracesParser(tc, {}, {})
                    msg = None
                    try:
                        for o in p2.feed_generator(shape_events(name, shape, s, e)):
                            str(o)
                    except Exception as ex2:
                        msg = str(ex2)
                    arr[k] = old
                    if msg != str(ex):
                        hit = (an, k, exn)
                        break
                if not hit:
                    problems.append(f'cannot locate {val} for {En.__name__}')
                    break
                an, k, exn = hit
                values = sorted({m_.value for m_ in En.__members__.values() if isinstance(m_.value, int)})
                found[f'{an}{k}'] = {'enum': f'{mn}.{En.__name__}', 'extract': exn, 'values': values}
                arr = s if an == 's' else e
                arr[k] = EXTRACT[exn][1](arr[k], values[len(values) // 2]) & 0xffffffffffffffff
            except Exception as ex:
                problems.append(f'{type(ex).__name__}: {str(ex)[:60]}')
                break
    return found, sorted(set(problems))


def main():
    tc = E.codes()
    p = TracesParser(tc, {}, {})
    out = {}
    for name in p.handlers:
        if name not in set(tc.values()):
            out[name] = {'unreachable': True}
            continue
        entry = {}
        for shape in ('se', 'single'):
            found, problems = discover(tc, name, shape)
            entry[shape] = {'enums': found, 'problems': problems}
        out[name] = entry
    # manual review overrides (see DESIGN.md 5b): MACH_vmfault reads its fault type from END word 3 only when END
    # word 2 (the kern return) is 0; the perturbation heuristic mislocates it.
    vals = sorted(m_.value for m_ in mach.DbgVmFaultType)
    out['MACH_vmfault']['se']['enums'] = {'e3': {'enum': 'mach.DbgVmFaultType', 'extract': 'whole', 'values': vals}}
    out['MACH_vmfault']['single']['enums'] = {'s3': {'enum': 'mach.DbgVmFaultType', 'extract': 'whole', 'values': vals}}
    # frozen copy of every enum declared by the handler modules (member name -> value), for conditional domains
    frozen = {}
    for mn in ('bsd', 'mach', 'dyld', 'perf', 'trace', 'turnstile', 'fsystem'):
        for k, v in vars(MODS[mn]).items():
            if isinstance(v, type) and issubclass(v, enum.Enum) and v.__module__ == MODS[mn].__name__:
                frozen[f'{mn}.{k}'] = {m_: x.value for m_, x in v.__members__.items()}
    out['__enums__'] = frozen
    with open('/verif/mc/domains.json', 'w') as f:
        json.dump(out, f, indent=1, sort_keys=True)
    n = sum(1 for k_, v in out.items() if k_ != '__enums__' and any(v.get(s, {}).get('enums') for s in ('se', 'single')))
    print('decoders:', len(out), 'with enum-valued words:', n)
    for name, v in out.items():
        for s in ('se', 'single'):
            if name != '__enums__' and v.get(s, {}).get('problems'):
                print(name, s, v[s]['problems'])


main()
