#!/usr/bin/env python3
"""For every 'fix:' commit in /repo: build the reverse patch, apply it to a scratch copy, run the suite and the quick check of
every property the fix is recorded under, and expect exit 1 + VIOLATION (the check must catch the defect coming back)."""
import json, subprocess, os, sys
kf = json.load(open('/verif/known_findings.json'))['findings']
by_commit = {}
for f in kf:
    if f.get('status') == 'fixed':
        by_commit.setdefault(f['commit'], set()).add(f['property'])
extra = {'F13': {'C20'}, 'F3': {'C11'}}
rows = []
os.makedirs('/verif/mutants/reverts', exist_ok=True)
for commit, props in sorted(by_commit.items()):
    ids = sorted({f['id'] for f in kf if f.get('commit') == commit})
    patch = f'/verif/mutants/reverts/revert_{"_".join(ids)}_{commit}.diff'
    d = subprocess.check_output(['git', '-C', '/repo', 'diff', commit, commit + '^'], text=True)
    open(patch, 'w').write(d)
    out = subprocess.run(['/verif/tools/mutant_run.sh', patch, 'quick'] + sorted(props), capture_output=True, text=True).stdout
    suite = 'pass' if 'SUITE=pass' in out else 'fail'
    res = {l.split()[0]: l.split()[1] for l in out.splitlines() if l[:1] == 'C' and ' exit=' in l}
    rows.append((ids, commit, suite, res))
    print(ids, commit, 'suite', suite, res, flush=True)
bad = [r for r in rows if any(v != 'exit=1' for v in r[3].values()) or r[2] != 'pass']
print('NOT CAUGHT:' if bad else 'all reverts caught', bad)
